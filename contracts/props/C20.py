"""C20 - sets and spaces: equality, hashing and membership are coherent.

The real __eq__ / __hash__ / __contains__ of every class in scope are executed symbolically on instances with symbolic
fields (lengths, shapes, exponents, constants, array contents, and abstract leaf sets / spaces whose own equality is an
arbitrary equivalence relation: structural induction).  For all instances a, b, c (of the same and of different classes):

laws/<K>/reflexive     a == a
laws/<K>x<K'>/symmetric    (a == b) <=> (b == a)         including mixed classes
laws/<K>/transitive    a == b and b == c  ==>  a == c
laws/<K>/hash          hash(a) does not raise, and a == b ==> hash(a) == hash(b)   (abstract hash values: equal keys)
laws/<K>/ne            (a != b) <=> not (a == b)
member/*               x in space  <=>  x.space == space   (and False for objects without a space)
"""
import itertools

import z3

from pyvc import core, interp as ip, odlmodel as om, npmodel as npm
from pyvc.core import S, C, V, VVar, VConst, Unsupported
from pyvc.harness import Unit
from contracts import lib, eqlib
from contracts.eqlib import hash_eq

META = {
    'level': 'proof',
    'trusted_base': [
        'pyvc symbolic interpreter (A7); Python guarantees: equal numbers / tuples / frozensets / identical bytes have equal hashes, tuple == and `in` compare by identity first',
        'abstract leaves: the laws are assumed for the constituent sets / spaces (arbitrary equivalence relation with a compatible hash) and proved for everything built from them',
        'instances are built with their class invariant (positive lengths, positive finite weights, strictly increasing grid vectors without NaN, min_pt <= max_pt)',
        'NumPy kernels: array_equal / == / all as pointwise reductions, tobytes as the memory image (two float zeros with different bits)',
    ],
    'assumptions': ['A1', 'A7'],
    'not_decided': ['element factories (NumpyTensorSpace.element / ProductSpace.element / DiscretizedSpace.element array conversion paths: NumPy casting and memory sharing)',
                    'derived-space constructors NumpyTensorSpace.byaxis, ProductSpace.__getitem__ (weighting / exponent not handed on: observation in DESIGN 5.3) and element indexing vs. array indexing; _astype, astype chains and DiscretizedSpace.byaxis_in are under contract',
                    'MatrixWeighting, CustomInner / CustomNorm / CustomDist, sparse matrices', 'SetUnion / SetIntersection / FiniteSet with more than 3 members'],
}

SETS = 'odl.set.sets:'
DOM = 'odl.set.domain:'
SPACE = 'odl.set.space:'
BT = 'odl.space.base_tensors:'
NT = 'odl.space.npy_tensors:'
WT = 'odl.space.weighting:'
PS = 'odl.space.pspace:'
GRID = 'odl.discr.grid:'
PART = 'odl.discr.partition:'
DISCR = 'odl.discr.discr_space:'
UTIL = 'odl.util.utility:'


def install(st):
    eq, hsh, ne = eqlib.leaf_cuts()
    st.cuts[SETS + 'Set.__eq__'] = eq
    st.cuts[SETS + 'Set.__hash__'] = hsh
    st.cuts[UTIL + 'unique'] = unique_contract
    st.cuts[SETS + 'Set.__contains__'] = leaf_contains
    st.closure_arrays = False
    st.shape_checks = True
    st.list_arrays = True
    st.isclose_with_tolerance = True      # np.isclose is NOT an equivalence relation: modelled with its tolerances here


def leaf_contains(I, fr, self, item):
    """membership in an abstract leaf set: an arbitrary predicate of (set class, item)"""
    if getattr(self, 'key', None) is None:
        raise Unsupported('membership in a non-leaf abstract set')
    tab = fr.st.__dict__.setdefault('member_syms', {})
    k = (self.leafname, getattr(item, 'leafname', None) or repr(item))
    if k not in tab:
        tab[k] = S(z3.Bool('member_%s_%s' % k))
    return tab[k]


def unique_contract(I, fr, seq):
    """contract of odl.util.utility.unique: first occurrences w.r.t. ==, order kept"""
    out = []
    for x in I.iterate(seq, fr):
        dup = False
        for y in out:
            if x is y or I.truth(I.py_eq(y, x, fr), fr):
                dup = True
                break
        if not dup:
            out.append(x)
    return out


def pos_int(st, name):
    n = S(z3.Int(name))
    st.assume(n >= 1)
    return n


def sym_exponent(st, name, kind):
    if kind == 'inf':
        return float('inf')
    if kind == '2':
        return 2.0
    p = S(z3.Real(name))
    st.assume(p >= 1)
    return p


def arr(st, name, n, dtype='float64'):
    """1-d array of symbolic length n with free contents"""
    dt = npm.DT(dtype)
    buf = npm.Buf(VVar(name, 'real'), dt, (n,), True, True, name=name)
    return npm.PArr(buf)


# ---- builders: name -> (I, st, fr, tag) -> instance -----------------------------------------------------

def B_simple(qual):
    return lambda I, st, fr, tag, cfg: I.call(I.get_class(qual), [], {}, fr)


def B_strings(I, st, fr, tag, cfg):
    return I.call(I.get_class(SETS + 'Strings'), [pos_int(st, 'len_' + tag)], {}, fr)


def leaf_set(I, tag):
    return eqlib.Leaves(I).make(SETS + 'Set', tag)


def leaf_space(I, tag):
    return eqlib.Leaves(I).make(SPACE + 'LinearSpace', tag)


def B_nary(qual, n):
    def b(I, st, fr, tag, cfg):
        k = cfg.get('n_' + tag[0], n)
        return I.call(I.get_class(qual), [leaf_set(I, '%s%d' % (tag, i)) for i in range(k)], {}, fr)
    return b


def B_finite(I, st, fr, tag, cfg):
    k = cfg.get('n_' + tag[0], 2)
    return I.call(I.get_class(SETS + 'FiniteSet'), [S(z3.Int('el_%s%d' % (tag, i))) for i in range(k)], {}, fr)


def B_interval(I, st, fr, tag, cfg):
    n = pos_int(st, 'ndim_' + tag)
    o = ip.Obj(I.get_class(DOM + 'IntervalProd'))
    lo, hi = arr(st, 'min_' + tag, n), arr(st, 'max_' + tag, n)
    st.assume(st.lower(lo.content) <= st.lower(hi.content))
    o.fields['_IntervalProd__min_pt'] = lo
    o.fields['_IntervalProd__max_pt'] = hi
    o.partial = True
    return o


def B_constw(qual):
    def b(I, st, fr, tag, cfg):
        o = ip.Obj(I.get_class(qual))
        c = S(z3.Real('const_' + tag))
        st.assume(c > 0)
        o.fields['_ConstWeighting__const'] = c
        o.fields['_Weighting__impl'] = 'numpy'
        o.fields['_Weighting__exponent'] = sym_exponent(st, 'p_' + tag, cfg.get('exp', 'sym'))
        o.partial = True
        return o
    return b


def B_arrayw(qual):
    def b(I, st, fr, tag, cfg):
        o = ip.Obj(I.get_class(qual))
        a = arr(st, 'warr_' + tag, pos_int(st, 'wlen_' + tag))
        st.assume(st.lower(a.content) > 0)
        o.fields['_ArrayWeighting__array'] = a
        o.fields['_Weighting__impl'] = 'numpy'
        o.fields['_Weighting__exponent'] = sym_exponent(st, 'p_' + tag, cfg.get('exp', 'sym'))
        o.partial = True
        return o
    return b


def B_basew(I, st, fr, tag, cfg):
    o = ip.Obj(I.get_class(WT + 'Weighting'))
    o.fields['_Weighting__impl'] = 'numpy'
    o.fields['_Weighting__exponent'] = sym_exponent(st, 'p_' + tag, cfg.get('exp', 'sym'))
    o.partial = True
    return o


def sym_shape(st, tag, ndim):
    return tuple(pos_int(st, 'shape_%s%d' % (tag, i)) for i in range(ndim))


def B_tspace(I, st, fr, tag, cfg):
    o = ip.Obj(I.get_class(NT + 'NumpyTensorSpace'))
    o.fields['_TensorSpace__shape'] = sym_shape(st, tag, cfg.get('ndim_' + tag[0], 1))
    o.fields['_TensorSpace__dtype'] = npm.DT(cfg.get('dtype_' + tag[0], 'float64'))
    o.fields['_LinearSpace__field'] = om.field_obj(I, 'real')
    wk = cfg.get('w_' + tag[0], 'const')
    o.fields['_NumpyTensorSpace__weighting'] = (B_constw(NT + 'NumpyTensorSpaceConstWeighting') if wk == 'const' else B_arrayw(NT + 'NumpyTensorSpaceArrayWeighting'))(I, st, fr, tag + 'w', cfg)
    return o


def B_pspace(I, st, fr, tag, cfg):
    o = ip.Obj(I.get_class(PS + 'ProductSpace'))
    k = cfg.get('n_' + tag[0], 2)
    o.fields['_ProductSpace__spaces'] = tuple(leaf_space(I, '%s%d' % (tag, i)) for i in range(k))
    o.fields['_ProductSpace__weighting'] = B_constw(PS + 'ProductSpaceConstWeighting')(I, st, fr, tag + 'w', cfg)
    o.fields['_LinearSpace__field'] = om.field_obj(I, 'real')
    # class invariant established by __init__:  is_power_space == all(spc == spaces[0] for spc in spaces[1:])
    sps = o.fields['_ProductSpace__spaces']
    flags = [as_sbool(I.py_eq(sp, sps[0], fr)) for sp in sps[1:]]
    o.fields['_ProductSpace__is_power_space'] = core.s_and(*flags) if flags else True
    o.partial = True
    return o


def B_grid(I, st, fr, tag, cfg):
    o = ip.Obj(I.get_class(GRID + 'RectGrid'))
    nd = cfg.get('ndim_' + tag[0], 1)
    vecs = []
    for i in range(nd):
        vecs.append(arr(st, 'cv_%s%d' % (tag, i), pos_int(st, 'n_%s%d' % (tag, i))))
    o.fields['_RectGrid__coord_vectors'] = tuple(vecs)
    # tolerance-based uniformity flags computed by __init__: free booleans (a flag says nothing exact about the coordinates)
    o.fields['_RectGrid__is_uniform_byaxis'] = tuple(S(z3.Bool('unif_%s%d' % (tag, i))) for i in range(nd))
    o.partial = True
    return o


def B_partition(I, st, fr, tag, cfg):
    o = ip.Obj(I.get_class(PART + 'RectPartition'))
    o.fields['_RectPartition__set'] = B_interval(I, st, fr, tag + 's', cfg)
    o.fields['_RectPartition__grid'] = B_grid(I, st, fr, tag + 'g', cfg)
    o.partial = True
    return o


def B_discr(I, st, fr, tag, cfg):
    o = ip.Obj(I.get_class(DISCR + 'DiscretizedSpace'))
    ts = B_tspace(I, st, fr, tag + 't', cfg)
    o.fields['_DiscretizedSpace__tspace'] = ts
    o.fields['_DiscretizedSpace__partition'] = B_partition(I, st, fr, tag + 'p', cfg)
    o.fields['_TensorSpace__shape'] = ts.fields['_TensorSpace__shape']
    o.fields['_TensorSpace__dtype'] = ts.fields['_TensorSpace__dtype']
    o.fields['_LinearSpace__field'] = om.field_obj(I, 'real')
    o.partial = True
    return o


BUILDERS = {
    'EmptySet': (B_simple(SETS + 'EmptySet'), [{}]),
    'UniversalSet': (B_simple(SETS + 'UniversalSet'), [{}]),
    'Strings': (B_strings, [{}]),
    'RealNumbers': (B_simple(SETS + 'RealNumbers'), [{}]),
    'ComplexNumbers': (B_simple(SETS + 'ComplexNumbers'), [{}]),
    'Integers': (B_simple(SETS + 'Integers'), [{}]),
    'CartesianProduct': (B_nary(SETS + 'CartesianProduct', 2), [dict(n_a=2, n_b=2, n_c=2), dict(n_a=1, n_b=2, n_c=2)]),
    'SetUnion': (B_nary(SETS + 'SetUnion', 2), [dict(n_a=2, n_b=2, n_c=2), dict(n_a=1, n_b=2, n_c=1)]),
    'SetIntersection': (B_nary(SETS + 'SetIntersection', 2), [dict(n_a=2, n_b=2, n_c=2), dict(n_a=1, n_b=2, n_c=1)]),
    'FiniteSet': (B_finite, [dict(n_a=2, n_b=2, n_c=2), dict(n_a=1, n_b=2, n_c=2)]),
    'IntervalProd': (B_interval, [{}]),
    'Weighting': (B_basew, [dict(exp='sym')]),
    'ConstWeighting': (B_constw(WT + 'ConstWeighting'), [dict(exp='sym'), dict(exp='inf')]),
    'ArrayWeighting': (B_arrayw(WT + 'ArrayWeighting'), [dict(exp='sym')]),
    'NumpyTensorSpaceConstWeighting': (B_constw(NT + 'NumpyTensorSpaceConstWeighting'), [dict(exp='sym')]),
    'NumpyTensorSpaceArrayWeighting': (B_arrayw(NT + 'NumpyTensorSpaceArrayWeighting'), [dict(exp='sym')]),
    'ProductSpaceConstWeighting': (B_constw(PS + 'ProductSpaceConstWeighting'), [dict(exp='sym')]),
    'ProductSpaceArrayWeighting': (B_arrayw(PS + 'ProductSpaceArrayWeighting'), [dict(exp='sym')]),
    'NumpyTensorSpace': (B_tspace, [dict(ndim_a=1, ndim_b=1, ndim_c=1), dict(ndim_a=1, ndim_b=2, ndim_c=2), dict(dtype_a='float32', dtype_b='float64'),
                                    dict(w_a='array', w_b='array', w_c='array'), dict(w_a='const', w_b='array', w_c='const')]),
    'ProductSpace': (B_pspace, [dict(n_a=2, n_b=2, n_c=2), dict(n_a=1, n_b=2, n_c=2)]),
    'RectGrid': (B_grid, [dict(ndim_a=1, ndim_b=1, ndim_c=1), dict(ndim_a=2, ndim_b=2, ndim_c=2), dict(ndim_a=1, ndim_b=2, ndim_c=1)]),
    'RectPartition': (B_partition, [dict(ndim_a=1, ndim_b=1, ndim_c=1)]),
    'DiscretizedSpace': (B_discr, [dict(ndim_a=1, ndim_b=1, ndim_c=1)]),
}

MIXED = [('RealNumbers', 'ComplexNumbers'), ('RealNumbers', 'Integers'), ('EmptySet', 'UniversalSet'), ('Strings', 'FiniteSet'),
         ('SetUnion', 'SetIntersection'), ('CartesianProduct', 'SetUnion'), ('Weighting', 'ConstWeighting'), ('ConstWeighting', 'ArrayWeighting'),
         ('ConstWeighting', 'NumpyTensorSpaceConstWeighting'), ('ArrayWeighting', 'NumpyTensorSpaceArrayWeighting'),
         ('NumpyTensorSpaceConstWeighting', 'NumpyTensorSpaceArrayWeighting'), ('ConstWeighting', 'ProductSpaceConstWeighting'),
         ('NumpyTensorSpace', 'ProductSpace'), ('NumpyTensorSpace', 'DiscretizedSpace'), ('RectGrid', 'RectPartition'), ('IntervalProd', 'RectPartition'),
         ('IntervalProd', 'RealNumbers'), ('ProductSpace', 'CartesianProduct')]


def grids_of(o, acc):
    if isinstance(o, ip.Obj):
        if o.cls.name == 'RectGrid':
            acc.append(o)
        for v in o.fields.values():
            grids_of(v, acc)
    elif isinstance(o, (tuple, list)):
        for v in o:
            grids_of(v, acc)
    return acc


def tie_uniform_flags(st, fr, objs):
    """the uniformity flags are a function of the coordinates: grids with identical coordinate vectors carry identical flags"""
    gs = []
    for o in objs:
        grids_of(o, gs)
    for g1, g2 in itertools.combinations(gs, 2):
        v1, v2 = g1.fields['_RectGrid__coord_vectors'], g2.fields['_RectGrid__coord_vectors']
        if len(v1) != len(v2):
            continue
        for i, (a, b) in enumerate(zip(v1, v2)):
            same = core.s_and(eqlib.shape_eq(a.buf.shape, b.buf.shape),
                              core.sbool(st.reductions.reduce(fr, 'all', core.VPw('eq', (a.buf.content, b.buf.content)))))
            f1, f2 = g1.fields['_RectGrid__is_uniform_byaxis'][i], g2.fields['_RectGrid__is_uniform_byaxis'][i]
            st.assume(core.s_or(core.s_not(same), core.sbool(core.sc_eq(f1, f2))))


def as_sbool(r):
    if isinstance(r, S):
        return core.sbool(r)
    if r is ip.NOTIMPL:
        return core.sbool(False)
    return core.sbool(bool(r))


def eq(I, fr, a, b):
    """a == b exactly as the `==` operator evaluates it"""
    return as_sbool(I.truth_value(I.py_eq(a, b, fr), fr) if hasattr(I, 'truth_value') else I.py_eq(a, b, fr))


def unit_laws(kname, law, cfg, other=None):
    def run(ctx):
        I = ctx.I

        def path(st):
            install(st)
            fr = ip.Frame(st)
            b1, _ = BUILDERS[kname]
            b2 = BUILDERS[other][0] if other else b1
            out = {'fr': fr}
            try:
                a = b1(I, st, fr, 'a', cfg)
                b = b2(I, st, fr, 'b', cfg)
                out['a'], out['b'] = a, b
                c = b1(I, st, fr, 'c', cfg) if law == 'transitive' else None
                tie_uniform_flags(st, fr, [a, b, c])
                if law == 'reflexive':
                    out['r'] = eq(I, fr, a, a)
                elif law == 'symmetric':
                    out['r1'], out['r2'] = eq(I, fr, a, b), eq(I, fr, b, a)
                elif law == 'transitive':
                    out['r1'], out['r2'], out['r3'] = eq(I, fr, a, b), eq(I, fr, b, c), eq(I, fr, a, c)
                elif law == 'ne':
                    out['r1'] = eq(I, fr, a, b)
                    out['r2'] = as_sbool(I.py_ne(a, b, fr))
                elif law == 'hash':
                    out['r1'] = eq(I, fr, a, b)
                    out['h1'], out['h2'] = I.py_hash(a, fr), I.py_hash(b, fr)
            except ip.PyRaise as e:
                return ('raise', e.exc)
            return ('ok', out)
        info = dict(cfg, cls=kname, other=other, law=law)
        for st, (status, r) in ctx.explore(path):
            if status == 'raise':
                ctx.fail(st, '%s: evaluates without raising' % law, 'raises %s' % lib.exc_desc(r), info)
                continue
            if law == 'reflexive':
                ctx.prove(st, 'a == a', r['r'], info)
            elif law == 'symmetric':
                ctx.prove(st, '(a == b) <=> (b == a)', core.sc_eq(r['r1'], r['r2']), info)
            elif law == 'transitive':
                ctx.prove(st, 'a == b and b == c ==> a == c', core.s_or(core.s_not(r['r1']), core.s_not(r['r2']), r['r3']), info)
            elif law == 'ne':
                ctx.prove(st, '(a != b) <=> not (a == b)', core.sc_eq(r['r2'], core.s_not(r['r1'])), info)
            else:
                ctx.prove(st, 'a == b ==> hash(a) == hash(b)', core.s_or(core.s_not(r['r1']), hash_eq(st, r['h1'], r['h2'])), info)
    tag = '/'.join('%s=%s' % kv for kv in sorted(cfg.items()))
    nm = kname if not other else '%sx%s' % (kname, other)
    q = []
    return Unit('laws/%s/%s%s' % (nm, law, ('/' + tag) if tag else ''), run, funcs=[kname + '.__eq__', kname + '.__hash__'], config=dict(cfg, cls=kname, other=other, law=law))


def unit_member(kind):
    """x in space <=> x.space == space"""
    def run(ctx):
        I = ctx.I

        def path(st):
            install(st)
            fr = ip.Frame(st)
            cfg = {}
            sp = {'tensor': B_tspace, 'pspace': B_pspace, 'discr': B_discr}[kind](I, st, fr, 'a', cfg)
            other_sp = {'tensor': B_tspace, 'pspace': B_pspace, 'discr': B_discr}[kind](I, st, fr, 'b', cfg)
            x = ip.Obj(I.get_class(SPACE + 'LinearSpaceElement'))
            x.fields['_LinearSpaceElement__space'] = other_sp
            try:
                r_in = as_sbool(I.contains(sp, x, fr))
                r_eq = eq(I, fr, other_sp, sp)
                r_none = as_sbool(I.contains(sp, 1.5, fr))
                r_tuple = as_sbool(I.contains(sp, (1, 2), fr))
            except ip.PyRaise as e:
                return ('raise', e.exc)
            return ('ok', (r_in, r_eq, r_none, r_tuple))
        info = {'space': kind}
        for st, (status, r) in ctx.explore(path):
            if status == 'raise':
                ctx.fail(st, 'membership evaluates without raising', 'raises %s' % lib.exc_desc(r), info)
                continue
            ctx.prove(st, 'x in space <=> x.space == space', core.sc_eq(r[0], r[1]), info)
            ctx.prove(st, 'objects without a space are not members', core.s_and(core.s_not(r[2]), core.s_not(r[3])), info)
    return Unit('member/%s' % kind, run, funcs=[SPACE + 'LinearSpace.__contains__', BT + 'TensorSpace.__contains__'], config={'space': kind})


def unit_pspace_element(k, m):
    """ProductSpace.element(inp) for a sequence of m proper elements of the factor spaces handed to a product of k arbitrary factor spaces: for m != k the call is rejected
    (ValueError / TypeError) before anything is returned; for m == k the result is an element of the very space with exactly these parts - so that whatever
    `element` returns satisfies  `res in space`  and has as many parts as the space has factors (membership coherent with the factory)"""
    def run(ctx):
        I = ctx.I

        def path(st):
            install(st)
            fr = ip.Frame(st)
            sp = B_pspace(I, st, fr, 'a', {'n_a': k})
            leaves = sp.fields['_ProductSpace__spaces']
            inp = []
            for i in range(m):
                x = ip.Obj(I.get_class(SPACE + 'LinearSpaceElement'))
                x.fields['_LinearSpaceElement__space'] = leaves[i] if i < k else leaves[0]
                inp.append(x)
            try:
                res = I.call(I._getattr(sp, 'element', fr), [list(inp)], {}, fr)
            except ip.PyRaise as e:
                return ('raise', e.exc)
            try:
                member = as_sbool(I.contains(sp, res, fr))
            except ip.PyRaise as e:
                return ('raise2', e.exc)
            return ('ok', (sp, inp, res, member))
        info = {'factors': k, 'sequence_length': m}
        for st, (status, r) in ctx.explore(path):
            if m != k:
                ctx.prove(st, 'a sequence of the wrong length is rejected with ValueError / TypeError', status == 'raise' and lib.exc_name(r) in ('ValueError', 'TypeError'),
                          dict(info, got='returned %r' % (r[2],) if status == 'ok' else lib.exc_desc(r)))
                continue
            if status != 'ok':
                ctx.fail(st, 'a sequence of proper elements of the right length is accepted', 'raises %s' % lib.exc_desc(r), info)
                continue
            sp, inp, res, member = r
            okr = isinstance(res, ip.Obj) and res.fields.get('_LinearSpaceElement__space') is sp
            ctx.prove(st, 'the result is an element of the very space', okr, info)
            parts = res.fields.get('_ProductSpaceElement__parts') if isinstance(res, ip.Obj) else None
            ctx.prove(st, 'its parts are exactly the given elements (as many as the space has factors)', parts is not None and len(parts) == k and all(a is b for a, b in zip(parts, inp)), info)
            ctx.prove(st, 'res in space', member, info)
    return Unit('derived/pspace-element/k=%d/len=%d' % (k, m), run, funcs=[PS + 'ProductSpace.element', PS + 'ProductSpaceElement.__init__', SPACE + 'LinearSpace.__contains__'],
                config={'factors': k, 'sequence_length': m})


def unit_byaxis_in(dtype, wkind, indices):
    """DiscretizedSpace.byaxis_in[indices]: the sub-space is DiscretizedSpace(partition.byaxis[indices], tspace', axis_labels=<indexed labels>) where, for a constant
    weighting, tspace' is built by the class of the original tensor space with the indexed shape, the DTYPE and the EXPONENT of the original and the cell volume of the
    indexed partition as weighting; other weightings are delegated to tspace.byaxis[indices].  Constructor arguments are the claim."""
    def run(ctx):
        I = ctx.I

        def path(st):
            install(st)
            fr = ip.Frame(st)
            shape = (3, 4, 5)
            labels = ('$x$', '$y$', '$z$')
            cfg = dict(dtype_a=dtype, w_a=wkind, ndim_a=3)
            ts = B_tspace(I, st, fr, 'a', cfg)
            ts.fields['_TensorSpace__shape'] = shape
            made = {}

            class Part(object):
                def __init__(self, tag, shp):
                    self.tag, self.shp = tag, shp
                    self.vol = S(z3.Real('cellvol.' + tag))

                def __repr__(self):
                    return '<partition %s>' % self.tag

                def pv_getattr(self, I_, fr_, name):
                    if name == 'byaxis':
                        me = self

                        class BA(object):
                            def pv_getitem(self, I2, fr2, idx):
                                sub = Part('sub', _index_tuple(me.shp, idx))
                                made['part'] = (sub, idx)
                                return sub
                        return BA()
                    if name == 'cell_volume':
                        return self.vol
                    if name == 'shape':
                        return self.shp
                    if name == 'ndim':
                        return len(self.shp)
                    raise Unsupported('partition .%s' % name)

            class TsBA(object):
                def pv_getitem(self, I2, fr2, idx):
                    made['tspace_byaxis'] = idx
                    return ('tspace.byaxis', idx)
            sp = ip.Obj(I.get_class(DISCR + 'DiscretizedSpace'))
            sp.fields.update({'_DiscretizedSpace__tspace': ts, '_DiscretizedSpace__partition': Part('p', shape), '_TensorSpace__shape': shape,
                              '_TensorSpace__dtype': ts.fields['_TensorSpace__dtype'], '_LinearSpace__field': om.field_obj(I, 'real'),
                              '_DiscretizedSpace__axis_labels': labels})
            sp.partial = True
            ts.fields['byaxis'] = TsBA()

            def ts_ctor(I_, fr_, self, *a, **kw):
                self.fields['ctor'] = ('tspace', tuple(a), dict(kw))
                return None

            def ds_ctor(I_, fr_, self, *a, **kw):
                self.fields['ctor'] = ('discr', tuple(a), dict(kw))
                return None
            st.cuts[NT + 'NumpyTensorSpace.__init__'] = ts_ctor
            st.cuts[DISCR + 'DiscretizedSpace.__init__'] = ds_ctor
            try:
                bi = I._getattr(sp, 'byaxis_in', fr)
                res = I.getitem(bi, indices, fr)
            except ip.PyRaise as e:
                return ('raise', e.exc)
            return ('ok', dict(sp=sp, ts=ts, res=res, made=made, shape=shape, labels=labels))
        info = {'dtype': dtype, 'weighting': wkind, 'indices': repr(indices)}
        for st, (status, r) in ctx.explore(path):
            if status == 'raise':
                ctx.fail(st, 'byaxis_in evaluates without raising', 'raises %s' % lib.exc_desc(r), info)
                continue
            res, made = r['res'], r['made']
            ok = isinstance(res, ip.Obj) and res.fields.get('ctor', (None,))[0] == 'discr'
            ctx.prove(st, 'returns a DiscretizedSpace', ok, dict(info, got=repr(res)))
            if not ok:
                continue
            _, a, kw = res.fields['ctor']
            full = dict(zip(['partition', 'tspace'], a))
            full.update(kw)
            ctx.prove(st, 'built on partition.byaxis[indices]', 'part' in made and full.get('partition') is made['part'][0] and made['part'][1] == indices, dict(info, got=repr(full.get('partition'))))
            if not isinstance(indices, int):       # for an integer index the library hands the single label STRING on (it is then split into characters: observation in DESIGN 5.3, labels are not part of the listed property)
                ctx.prove(st, 'axis labels indexed like the axes', tuple(full.get('axis_labels') or ()) == _index_tuple(r['labels'], indices), dict(info, got=repr(full.get('axis_labels'))))
            t = full.get('tspace')
            if wkind == 'const':
                okt = isinstance(t, ip.Obj) and t.cls is r['ts'].cls and t.fields.get('ctor', (None,))[0] == 'tspace'
                ctx.prove(st, 'constant weighting: tensor space built by the class of the original tensor space', okt, dict(info, got=repr(t)))
                if okt:
                    _, ta, tkw = t.fields['ctor']
                    tfull = dict(zip(['shape', 'dtype'], ta))
                    tfull.update(tkw)
                    shp = tfull.get('shape')
                    shp = (shp,) if isinstance(shp, int) else tuple(shp or ())        # an integer shape means a single axis of that length
                    want = _index_tuple(r['shape'], indices)
                    ctx.prove(st, 'tensor space: indexed shape', shp == ((want,) if isinstance(want, int) else want), dict(info, got=repr(tfull.get('shape'))))
                    dt = tfull.get('dtype')
                    ctx.prove(st, 'tensor space: dtype of the original space', dt is not None and npm.as_dtype(dt).name == dtype, dict(info, got=repr(dt)))
                    ctx.prove(st, 'tensor space: exponent of the original space', 'exponent' in tfull and as_sbool(I.py_eq(tfull['exponent'], I._getattr(r['sp'], 'exponent', ip.Frame(st)), ip.Frame(st))), dict(info, got=repr(tfull.get('exponent'))))
                    ctx.prove(st, 'tensor space: weighted by the cell volume of the indexed partition', tfull.get('weighting') is made['part'][0].vol, dict(info, got=repr(tfull.get('weighting'))))
            else:
                ctx.prove(st, 'other weightings: delegated to tspace.byaxis[indices]', t == ('tspace.byaxis', indices), dict(info, got=repr(t)))
    return Unit('derived/byaxis_in/%s/%s/%s' % (dtype, wkind, repr(indices).replace(' ', '')), run, funcs=[DISCR + 'DiscretizedSpace.byaxis_in'], config={'dtype': dtype, 'weighting': wkind, 'indices': repr(indices)})


def _index_tuple(t, idx):
    if isinstance(idx, (list, tuple)):
        return tuple(t[int(i)] for i in idx)
    r = t[idx]
    return r if isinstance(r, tuple) else r


def unit_astype(dtype_from, dtype_to, wkind):
    """TensorSpace._astype / astype: the new space has the same shape, the requested dtype and (for floating dtypes) the very weighting
    of the original - constant, array and exponent.  The constructor call type(self)(shape, dtype=, weighting=) is a cut (its arguments are the claim)."""
    def run(ctx):
        I = ctx.I

        def path(st):
            install(st)
            fr = ip.Frame(st)
            cfg = dict(dtype_a=dtype_from, w_a=wkind)
            sp = B_tspace(I, st, fr, 'a', cfg)
            made = []

            def ctor(I_, fr_, self, shape, dtype=None, **kw):
                self.fields['_TensorSpace__shape'] = tuple(shape)
                self.fields['_TensorSpace__dtype'] = npm.as_dtype(dtype)
                self.fields['ctor_kwargs'] = dict(kw)
                made.append(self)
                return None
            st.cuts[NT + 'NumpyTensorSpace.__init__'] = ctor
            try:
                new = I.call(I._getattr(sp, '_astype', fr), [npm.DT(dtype_to)], {}, fr)
            except ip.PyRaise as e:
                return ('raise', e.exc)
            return ('ok', (sp, new, fr))
        info = {'from': dtype_from, 'to': dtype_to, 'weighting': wkind}
        for st, (status, r) in ctx.explore(path):
            if status == 'raise':
                ctx.fail(st, 'astype evaluates without raising', 'raises %s' % lib.exc_desc(r), info)
                continue
            sp, new, fr = r
            ctx.prove(st, 'astype: same class', isinstance(new, ip.Obj) and new.cls is sp.cls, info)
            ctx.prove(st, 'astype: same shape', as_sbool(I.py_eq(new.fields['_TensorSpace__shape'], sp.fields['_TensorSpace__shape'], fr)), info)
            ctx.prove(st, 'astype: requested dtype', new.fields['_TensorSpace__dtype'].name == dtype_to, info)
            kw = new.fields['ctor_kwargs']
            if npm.DT(dtype_to).kind in ('float', 'complex'):
                ctx.prove(st, 'astype to a floating dtype: the weighting (constant / array AND exponent) of the original is handed on',
                          kw.get('weighting') is sp.fields['_NumpyTensorSpace__weighting'] and set(kw) == {'weighting'}, info)
            else:
                ctx.prove(st, 'astype to a non-floating dtype: default weighting', 'weighting' not in kw, info)
    return Unit('derived/astype/%s->%s/%s' % (dtype_from, dtype_to, wkind), run, funcs=[BT + 'TensorSpace._astype'], config={'from': dtype_from, 'to': dtype_to, 'weighting': wkind})


def unit_astype_chain(d0, d1, d2, wkind='const'):
    """TensorSpace.astype with its real / complex space caches: space(d0).astype(d1).astype(d2) has dtype d2, the shape and the weighting of the
    original, for every chain over the floating dtypes (float16 and float32 share complex64, so a cached back-link would return the wrong space).
    NumpyTensorSpace.__init__ is a cut that runs the real TensorSpace.__init__ (which initialises the caches) and records the weighting argument."""
    def run(ctx):
        I = ctx.I

        def path(st):
            install(st)
            fr = ip.Frame(st)
            tcls = I.get_class(BT + 'TensorSpace')
            tinit = I.class_entry_value(*((tcls, '__init__') + (tcls.lookup('__init__')[1],)))

            def ctor(I_, fr_, self, shape, dtype=None, **kw):
                I_.call(tinit, [self, shape, dtype], {}, fr_)
                self.fields['_NumpyTensorSpace__weighting'] = kw.get('weighting')
                self.fields['ctor_kwargs'] = dict(kw)
                return None
            st.cuts[NT + 'NumpyTensorSpace.__init__'] = ctor
            from contracts import utilcuts
            st.cuts.update(utilcuts.cuts())
            w = (B_constw(NT + 'NumpyTensorSpaceConstWeighting') if wkind == 'const' else B_arrayw(NT + 'NumpyTensorSpaceArrayWeighting'))(I, st, fr, 'aw', {})
            try:
                sp = I.call(I.get_class(NT + 'NumpyTensorSpace'), [sym_shape(st, 'a', 1)], {'dtype': d0, 'weighting': w}, fr)
                s1 = I.call(I._getattr(sp, 'astype', fr), [d1], {}, fr)
                s2 = I.call(I._getattr(s1, 'astype', fr), [d2], {}, fr)
                s3 = I.call(I._getattr(s2, 'astype', fr), [d0], {}, fr)
            except ip.PyRaise as e:
                return ('raise', e.exc)
            return ('ok', (sp, s1, s2, s3, w, fr))
        info = {'chain': [d0, d1, d2, d0], 'weighting': wkind}
        for st, (status, r) in ctx.explore(path):
            if status == 'raise':
                ctx.fail(st, 'astype chain evaluates without raising', 'raises %s' % lib.exc_desc(r), info)
                continue
            sp, s1, s2, s3, w, fr = r
            for nm, s, d in (('first', s1, d1), ('second', s2, d2), ('back', s3, d0)):
                ctx.prove(st, 'astype chain (%s step): requested dtype' % nm, isinstance(s, ip.Obj) and s.fields['_TensorSpace__dtype'].name == npm.DT(d).name, info)
                ctx.prove(st, 'astype chain (%s step): same shape' % nm, as_sbool(I.py_eq(s.fields['_TensorSpace__shape'], sp.fields['_TensorSpace__shape'], fr)), info)
                ctx.prove(st, 'astype chain (%s step): weighting of the original' % nm, s.fields['_NumpyTensorSpace__weighting'] is w, info)
    return Unit('derived/astype-chain/%s->%s->%s/%s' % (d0, d1, d2, wkind), run, funcs=[BT + 'TensorSpace.astype', BT + 'TensorSpace._astype', BT + 'TensorSpace.__init__'],
                config={'chain': [d0, d1, d2], 'weighting': wkind})


def unit_canary():
    """must fail: two arrays with equal values claimed to have identical bytes (float zeros)"""
    def run(ctx):
        I = ctx.I

        def path(st):
            install(st)
            fr = ip.Frame(st)
            a, b = arr(st, 'u', pos_int(st, 'n')), arr(st, 'v', pos_int(st, 'n'))
            st.assume(core.sc_eq(st.lower(a.content), st.lower(b.content)))
            return ('ok', (npm.BytesV(a), npm.BytesV(b)))
        for st, (status, (x, y)) in ctx.explore(path):
            ctx.prove(st, 'canary', eqlib.bytes_eq(st, x, y), {})
    return Unit('canary/equal-values-equal-bytes', run, kind='canary', expect='refuted')


def replay(ob):
    from contracts import replay_c20
    return replay_c20.replay(ob)


def units(tier, seed):
    us = []
    for k, (b, cfgs) in BUILDERS.items():
        for law in ('reflexive', 'symmetric', 'transitive', 'hash', 'ne'):
            for cfg in cfgs:
                us.append(unit_laws(k, law, cfg))
    for k1, k2 in MIXED:
        us.append(unit_laws(k1, 'symmetric', {}, other=k2))
        us.append(unit_laws(k1, 'hash', {}, other=k2))
    for kind in ('tensor', 'pspace', 'discr'):
        us.append(unit_member(kind))
    for f, t in (('float64', 'float32'), ('float64', 'complex128'), ('complex128', 'float64'), ('float64', 'int64')):
        for wk in ('const', 'array'):
            us.append(unit_astype(f, t, wk))
    for k, m in ((2, 2), (2, 1), (2, 3), (3, 3), (3, 2), (3, 4), (1, 1), (1, 2), (2, 0)):
        us.append(unit_pspace_element(k, m))
    for dt in ('float64', 'float32', 'complex128'):
        for idx in (0, 2, slice(0, 2), [1, 0], [2]):
            us.append(unit_byaxis_in(dt, 'const', idx))
    us.append(unit_byaxis_in('float32', 'array', [1, 0]))
    fl = ('float16', 'float32', 'float64', 'complex64', 'complex128')
    for d0 in fl:
        for d1 in fl:
            for d2 in fl:
                if d0 != d1 and d1 != d2:
                    us.append(unit_astype_chain(d0, d1, d2))
    us.append(unit_astype_chain('float16', 'complex64', 'float32', 'array'))
    us.append(unit_canary())
    return us
