"""C16 - resizing and padding follow the named boundary rule; cropping undoes extension.

resize/forward/*   the real resize_array (with _intersection_slice_tuples, _assign_intersection, _padding_slices_*,
                   _apply_padding interpreted in place) on closure arrays with SYMBOLIC old / new extents and
                   offset, 1-d: grow, shrink; 2-d: grow/grow, grow/shrink (corner handling); at the generic index
                   out(k) == EXT_mode(arr)(k - offset): constant value, periodic wrap, symmetric reflection without
                   repeating the edge, constant / linear extrapolation; the overlapping block is copied unchanged;
                   independent of the previous contents of out.
resize/errors/*    ValueError exactly for the documented size limits (periodic: pad > n, symmetric: pad >= n,
                   order0: n == 0, order1: n < 2), adjoint with pad_const != 0.
resize/transpose/* forward and adjoint directions are transposes: M_adj(j, k) == M_fwd(k, j) for all j, k and all
                   admissible extents / offsets (delta trick with sparse-support sums).
resize/crop/*      extending and then cropping with matching offsets is the identity.
"""
import z3

from pyvc import core, interp as ip, odlmodel as om, carr, npmodel as npm
from pyvc.core import S, C, Unsupported, s_if, s_and, s_or, s_not
from pyvc.harness import Unit
from contracts import lib, utilcuts

NU = 'odl.util.numerics:'

META = {
    'level': 'proof',
    'trusted_base': [
        'pyvc symbolic interpreter (A7) with closure arrays (K1, K7); sparse-support sums for delta inputs',
        'contracts of normalized_scalar_param_list / safe_int_conv (object-array broadcasting of the offset list): assumed, cross-checked natively',
        'z3 LIA/LRA; A1 reals',
    ],
    'assumptions': ['A1', 'A5', 'A7', 'arr and out are distinct arrays', '0 <= offset <= new - old (grow) resp. old - new (shrink) per axis'],
    'not_decided': ['ndim >= 3 (axis loop unrolled for ndim 1, 2: bounded-in ndim)',
                    "the 2-d transpose for pad_mode 'order1' when BOTH axes grow (moment sums in both axes: the unit does not finish within 3000 s and is not run; the 1-d order1 "
                    'transposes and the 2-d ones with one growing and one shrinking axis are proved)',
                    'the weighted adjoint identity of ResizingOperator on non-uniformly weighted spaces',
                    'agreement with numpy.pad is implied by the rule-based specification only where numpy defines the same rule'],
}

MODES = ['constant', 'periodic', 'symmetric', 'order0', 'order1']


def admissible(st, mode, n, padl, padr):
    """documented size limits of the pad modes"""
    if mode == 'periodic':
        st.assume(padl <= n)
        st.assume(padr <= n)
    elif mode == 'symmetric':
        st.assume(padl < n)
        st.assume(padr < n)
    elif mode == 'order0':
        st.assume(n >= 1)
    elif mode == 'order1':
        st.assume(n >= 2)


def ext(mode, a, n, c):
    """a extended beyond [0, n) by the named rule (specification); p is the position relative to a"""
    def g(p):
        p = S.lift(p)
        left, right = p < 0, p >= n
        if mode == 'constant':
            return s_if(s_or(left, right), c, a(p))
        if mode == 'periodic':
            return s_if(left, a(p + n), s_if(right, a(p - n), a(p)))
        if mode == 'symmetric':
            return s_if(left, a(-p), s_if(right, a(2 * (n - 1) - p), a(p)))
        if mode == 'order0':
            return s_if(left, a(0), s_if(right, a(n - 1), a(p)))
        if mode == 'order1':
            return s_if(left, a(0) + p * (a(1) - a(0)), s_if(right, a(n - 1) + (p - (n - 1)) * (a(n - 1) - a(n - 2)), a(p)))
        raise KeyError(mode)
    return g


def call_resize(I, st, arr, newshp, offset, mode, c, direction, out=None):
    f = I.get_func(NU + 'resize_array')
    fr = ip.Frame(st)
    kw = {'offset': list(offset), 'pad_mode': mode, 'pad_const': c, 'direction': direction}
    if out is not None:
        kw['out'] = out
    return I.call(f, [arr, tuple(newshp)], kw, fr)


def setup(st):
    st.closure_arrays = True
    st.cuts.update(utilcuts.cuts())


def unit_forward_1d(mode, kind):
    """kind: grow | shrink | same"""
    def run(ctx):
        I = ctx.I

        def path(st):
            setup(st)
            n, m, off = S(z3.Int('n')), S(z3.Int('m')), S(z3.Int('off'))
            st.assume(n >= 1)
            st.assume(off >= 0)
            c = S(z3.Real('c'))
            if kind == 'grow':
                st.assume(m > n)
                st.assume(off <= m - n)
                admissible(st, mode, n, off, m - n - off)
            elif kind == 'shrink':
                st.assume(m < n)
                st.assume(m >= 1)
                st.assume(off <= n - m)
            else:
                st.assume(core.sc_eq(m, n))
                st.assume(core.sc_eq(off, 0))
            arr = carr.fresh_array('a', (n,), npm.DT('float64'))
            out = carr.fresh_array('stale', (m,), npm.DT('float64'))
            try:
                r = call_resize(I, st, arr, (m,), [off], mode, c, 'forward', out=out)
            except ip.PyRaise as e:
                return ('raise', e.exc)
            k = S(z3.Int('k'))
            st.assume(k >= 0)
            st.assume(k < m)
            return ('ok', (r, out, arr, k, n, m, off, c))
        info = {'mode': mode, 'kind': kind}
        rp = {'kind': 'resize', 'mode': mode, 'shape_kind': kind}
        for st, (status, r) in ctx.explore(path):
            if status == 'raise':
                ctx.fail(st, 'no_raise', 'raises %s%r for admissible sizes' % (lib.exc_name(r), r.fields.get('args')), info, replay=rp)
                continue
            ret, out, arr, k, n, m, off, c = r
            ctx.prove(st, 'returns out', ret is out, info)
            a = lambda p: arr.at((p,))
            if kind == 'shrink':
                want = a(k + off)
            else:
                want = ext(mode, a, n, c)(k - off)
            ctx.prove(st, 'out(k) == EXT_mode(arr)(k - offset) at every index, all extents / offsets', core.sc_eq(out.at((k,)), want), info, replay=rp)
            g = S(z3.Int('g_any'))
            ctx.prove(st, 'input array unchanged', core.sc_eq(arr.at((g,)), carr.fresh_array('a', (n,)).at((g,))), info, replay=rp)
    return Unit('resize/forward/1d/%s/%s' % (mode, kind), run,
                funcs=[NU + 'resize_array', NU + '_apply_padding', NU + '_assign_intersection', NU + '_intersection_slice_tuples',
                       NU + '_padding_slices_outer', NU + '_padding_slices_inner'], config={'mode': mode, 'kind': kind})


def unit_forward_2d(mode, kinds):
    def run(ctx):
        I = ctx.I

        def path(st):
            setup(st)
            ns = [S(z3.Int('n0')), S(z3.Int('n1'))]
            ms = [S(z3.Int('m0')), S(z3.Int('m1'))]
            offs = [S(z3.Int('off0')), S(z3.Int('off1'))]
            c = S(z3.Real('c'))
            for n, m, off, kind in zip(ns, ms, offs, kinds):
                st.assume(n >= 1)
                st.assume(off >= 0)
                if kind == 'grow':
                    st.assume(m > n)
                    st.assume(off <= m - n)
                    admissible(st, mode, n, off, m - n - off)
                else:
                    st.assume(m < n)
                    st.assume(m >= 1)
                    st.assume(off <= n - m)
            arr = carr.fresh_array('a', tuple(ns), npm.DT('float64'))
            out = carr.fresh_array('stale', tuple(ms), npm.DT('float64'))
            try:
                call_resize(I, st, arr, tuple(ms), offs, mode, c, 'forward', out=out)
            except ip.PyRaise as e:
                return ('raise', e.exc)
            ks = [S(z3.Int('k0')), S(z3.Int('k1'))]
            for k, m in zip(ks, ms):
                st.assume(k >= 0)
                st.assume(k < m)
            return ('ok', (out, arr, ks, ns, ms, offs, c))
        info = {'mode': mode, 'kinds': list(kinds)}
        for st, (status, r) in ctx.explore(path):
            if status == 'raise':
                ctx.fail(st, 'no_raise', 'raises %s%r' % (lib.exc_name(r), r.fields.get('args')), info)
                continue
            out, arr, ks, ns, ms, offs, c = r
            # separable specification: the extension rule is applied along axis 0 first, then along axis 1 to the
            # result (the documented axis order; for the linear rules both orders agree - bilinear identity)
            def along0(p1):
                a0 = lambda p0: arr.at((p0, p1))
                if kinds[0] == 'grow':
                    return ext(mode, a0, ns[0], c)(ks[0] - offs[0])
                return a0(ks[0] + offs[0])
            if kinds[1] == 'grow':
                want = ext(mode, along0, ns[1], c)(ks[1] - offs[1])
            else:
                want = along0(ks[1] + offs[1])
            regions = []
            for r0 in ((ks[0] < offs[0]), s_and(ks[0] >= offs[0], ks[0] < offs[0] + ns[0]), (ks[0] >= offs[0] + ns[0])):
                for r1 in ((ks[1] < offs[1]), s_and(ks[1] >= offs[1], ks[1] < offs[1] + ns[1]), (ks[1] >= offs[1] + ns[1])):
                    regions.append(s_and(r0, r1))
            ctx.prove_cases(st, '2-d: out(k0,k1) == EXT applied separably per axis (corners included)', core.sc_eq(out.at(tuple(ks)), want), regions, info)
    return Unit('resize/forward/2d/%s/%s' % (mode, '-'.join(kinds)), run, funcs=[NU + 'resize_array', NU + '_apply_padding'],
                config={'mode': mode, 'kinds': list(kinds)}, bounded_in='ndim = 2')


def unit_transpose_1d(mode, kind):
    def run(ctx):
        I = ctx.I

        def path(st):
            setup(st)
            n, m, off = S(z3.Int('n')), S(z3.Int('m')), S(z3.Int('off'))
            st.assume(n >= 1)
            st.assume(off >= 0)
            if kind == 'grow':
                st.assume(m > n)
                st.assume(off <= m - n)
                admissible(st, mode, n, off, m - n - off)
            else:
                st.assume(m < n)
                st.assume(m >= 1)
                st.assume(off <= n - m)
            j, k = S(z3.Int('j')), S(z3.Int('k'))
            st.assume(s_and(j >= 0, j < n))
            st.assume(s_and(k >= 0, k < m))
            try:
                # forward: arr (n) -> out (m); entry M(k, j)
                dj = carr.delta_array((n,), (j,), npm.DT('float64'))
                of = carr.fresh_array('sf', (m,), npm.DT('float64'))
                call_resize(I, st, dj, (m,), [off], mode, 0, 'forward', out=of)
                # adjoint: y (m) -> x (n); entry M'(j, k)
                dk = carr.delta_array((m,), (k,), npm.DT('float64'))
                oa = carr.fresh_array('sa', (n,), npm.DT('float64'))
                call_resize(I, st, dk, (n,), [off], mode, 0, 'adjoint', out=oa)
            except ip.PyRaise as e:
                return ('raise', e.exc)
            return ('ok', (of.at((k,)), oa.at((j,))))
        info = {'mode': mode, 'kind': kind}
        rp = {'kind': 'resize-transpose', 'mode': mode, 'shape_kind': kind}
        for st, (status, r) in ctx.explore(path):
            if status == 'raise':
                ctx.fail(st, 'no_raise', 'raises %s%r' % (lib.exc_name(r), r.fields.get('args')), info, replay=rp)
                continue
            mf, ma = r
            ctx.prove(st, 'adjoint direction is the transpose: M_adj(j, k) == M_fwd(k, j) for all j, k, extents, offsets', core.sc_eq(ma, mf), info, replay=rp)
    return Unit('resize/transpose/1d/%s/%s' % (mode, kind), run, funcs=[NU + 'resize_array', NU + '_apply_padding'], config={'mode': mode, 'kind': kind})


def unit_transpose_2d(mode, kinds):
    """2-d transposes incl. mixed grow / shrink; also: the adjoint direction must not modify its input"""
    def run(ctx):
        I = ctx.I

        def path(st):
            setup(st)
            ns = [S(z3.Int('n0')), S(z3.Int('n1'))]
            ms = [S(z3.Int('m0')), S(z3.Int('m1'))]
            offs = [S(z3.Int('off0')), S(z3.Int('off1'))]
            for n, m, off, kind in zip(ns, ms, offs, kinds):
                st.assume(n >= 1)
                st.assume(off >= 0)
                if kind == 'grow':
                    st.assume(m > n)
                    st.assume(off <= m - n)
                    admissible(st, mode, n, off, m - n - off)
                else:
                    st.assume(m < n)
                    st.assume(m >= 1)
                    st.assume(off <= n - m)
            js = [S(z3.Int('j0')), S(z3.Int('j1'))]
            ks = [S(z3.Int('k0')), S(z3.Int('k1'))]
            for j, n in zip(js, ns):
                st.assume(s_and(j >= 0, j < n))
            for k, m in zip(ks, ms):
                st.assume(s_and(k >= 0, k < m))
            try:
                dj = carr.delta_array(tuple(ns), tuple(js), npm.DT('float64'))
                of = carr.fresh_array('sf', tuple(ms), npm.DT('float64'))
                call_resize(I, st, dj, tuple(ms), offs, mode, 0, 'forward', out=of)
                dk = carr.delta_array(tuple(ms), tuple(ks), npm.DT('float64'))
                oa = carr.fresh_array('sa', tuple(ns), npm.DT('float64'))
                call_resize(I, st, dk, tuple(ns), offs, mode, 0, 'adjoint', out=oa)
            except ip.PyRaise as e:
                return ('raise', e.exc)
            g = [S(z3.Int('g0')), S(z3.Int('g1'))]
            for gi, m in zip(g, ms):
                st.assume(s_and(gi >= 0, gi < m))
            delta_k = s_if(s_and(core.sc_eq(g[0], ks[0]), core.sc_eq(g[1], ks[1])), 1.0, 0.0)
            return ('ok', (of.at(tuple(ks)), oa.at(tuple(js)), dk.at(tuple(g)), delta_k))
        info = {'mode': mode, 'kinds': list(kinds)}
        rp = {'kind': 'resize-transpose-2d', 'mode': mode, 'kinds': list(kinds)}
        for st, (status, r) in ctx.explore(path):
            if status == 'raise':
                ctx.fail(st, 'no_raise', 'raises %s%r' % (lib.exc_name(r), r.fields.get('args')), info, replay=rp)
                continue
            mf, ma, after, before = r
            ctx.prove(st, '2-d: adjoint direction is the transpose of the forward direction', core.sc_eq(ma, mf), info, replay=rp)
            ctx.prove(st, 'adjoint direction leaves its input array unchanged', core.sc_eq(after, before), info, replay=rp)
    return Unit('resize/transpose/2d/%s/%s' % (mode, '-'.join(kinds)), run, funcs=[NU + 'resize_array', NU + '_apply_padding'],
                config={'mode': mode, 'kinds': list(kinds)}, bounded_in='ndim = 2')


def unit_errors():
    def run(ctx):
        I = ctx.I
        cases = [('periodic', 'padl>n'), ('symmetric', 'padl>=n'), ('order0', 'n==0'), ('order1', 'n<2'), ('constant', 'adjoint-const')]
        for mode, bad in cases:
            def path(st, mode=mode, bad=bad):
                setup(st)
                n, m, off = S(z3.Int('n')), S(z3.Int('m')), S(z3.Int('off'))
                st.assume(n >= 0)
                st.assume(m > n)
                st.assume(off >= 0)
                st.assume(off <= m - n)
                direction, c = 'forward', 0
                if bad == 'padl>n':
                    st.assume(off > n)
                elif bad == 'padl>=n':
                    st.assume(off >= n)
                elif bad == 'n==0':
                    st.assume(core.sc_eq(n, 0))
                elif bad == 'n<2':
                    st.assume(n < 2)
                else:
                    direction, c = 'adjoint', S(z3.Real('c'))
                    st.assume(core.s_not(core.sc_eq(c, 0)))
                arr = carr.fresh_array('a', (n,), npm.DT('float64'))
                try:
                    call_resize(I, st, arr, (m,), [off], mode, c, direction)
                except ip.PyRaise as e:
                    return ('raise', e.exc)
                return ('ok', None)
            info = {'mode': mode, 'bad': bad}
            for st, (status, r) in ctx.explore(path):
                if status == 'ok':
                    ctx.fail(st, 'must_raise', 'inadmissible sizes accepted', info)
                else:
                    ctx.prove(st, 'ValueError for the documented size limit', lib.exc_name(r) == 'ValueError', dict(info, got=lib.exc_name(r)))
    return Unit('resize/errors', run, funcs=[NU + 'resize_array', NU + '_apply_padding'])


def unit_crop(mode):
    """crop(extend(a)) == a with matching offsets"""
    def run(ctx):
        I = ctx.I

        def path(st):
            setup(st)
            n, m, off = S(z3.Int('n')), S(z3.Int('m')), S(z3.Int('off'))
            st.assume(n >= 1)
            st.assume(m > n)
            st.assume(off >= 0)
            st.assume(off <= m - n)
            admissible(st, mode, n, off, m - n - off)
            arr = carr.fresh_array('a', (n,), npm.DT('float64'))
            try:
                big = call_resize(I, st, arr, (m,), [off], mode, S(z3.Real('c')), 'forward')
                back = call_resize(I, st, big, (n,), [off], mode, 0, 'forward')
            except ip.PyRaise as e:
                return ('raise', e.exc)
            k = S(z3.Int('k'))
            st.assume(s_and(k >= 0, k < n))
            return ('ok', (back, arr, k))
        info = {'mode': mode}
        for st, (status, r) in ctx.explore(path):
            if status == 'raise':
                ctx.fail(st, 'no_raise', 'raises %s%r' % (lib.exc_name(r), r.fields.get('args')), info)
                continue
            back, arr, k = r
            ctx.prove(st, 'crop(extend(a))(k) == a(k) for all k', core.sc_eq(back.at((k,)), arr.at((k,))), info)
    return Unit('resize/crop/%s' % mode, run, funcs=[NU + 'resize_array'], config={'mode': mode})


def unit_util_bounded():
    """bounded cross-check of the assumed utility contracts against the real functions"""
    def run(ctx):
        import os
        import sys
        root = os.environ.get('PYVC_REPO', '/repo')
        if root not in sys.path:
            sys.path.insert(0, root)
        from odl.util.normalize import normalized_scalar_param_list, safe_int_conv
        cases = [(3, 2), ([1, 2], 2), ([5], 3), ((0, 1, 2), 3), (None, 2), ([None, 1], 2)]
        for param, length in cases:
            for keep_none in (True, False):
                try:
                    real = normalized_scalar_param_list(param, length, param_conv=safe_int_conv, keep_none=keep_none)
                except Exception as e:
                    real = type(e).__name__
                items = list(param) * length if isinstance(param, (list, tuple)) and len(param) == 1 else (list(param) if isinstance(param, (list, tuple)) else [param] * length)
                try:
                    mine = [p if (p is None and keep_none) else int(p) for p in items]
                except TypeError:
                    mine = 'ValueError'
                ctx.bounded('normalized_scalar_param_list contract', real == mine or (isinstance(real, str) and isinstance(mine, str)),
                            {'param': repr(param), 'length': length, 'keep_none': keep_none}, detail='real %r vs contract %r' % (real, mine))
    return Unit('util/normalize-contracts', run, funcs=['odl.util.normalize:normalized_scalar_param_list'], kind='B')


def resize_nd_case_check(case):
    """native check of one n-d resize case; returns None or the description of the failure"""
    import os
    import sys
    root = os.environ.get('PYVC_REPO', '/repo')
    if root not in sys.path:
        sys.path.insert(0, root)
    import warnings
    warnings.filterwarnings('ignore')
    import numpy as np
    import odl
    from odl.util.numerics import resize_array
    if case['kind'] == 'transpose':
        shp, new, off, mode = tuple(case['shape']), tuple(case['newshape']), tuple(case['offset']), case['pad_mode']
        n, m = int(np.prod(shp)), int(np.prod(new))
        A = np.empty((m, n))
        for j in range(n):
            e = np.zeros(n)
            e[j] = 1.0
            A[:, j] = resize_array(e.reshape(shp), new, offset=off, pad_mode=mode, pad_const=0, direction='forward').ravel()
        B = np.empty((n, m))
        for i in range(m):
            e = np.zeros(m)
            e[i] = 1.0
            B[:, i] = resize_array(e.reshape(new), shp, offset=off, pad_mode=mode, pad_const=0, direction='adjoint').ravel()
        if not np.allclose(B, A.T):
            i, j = np.argwhere(~np.isclose(B, A.T))[0]
            return 'resize_array %r -> %r, offset %r, %s: adjoint matrix is not the transpose of the forward matrix (entry (%d, %d): %r vs %r; %d entries differ)' % (
                shp, new, off, mode, i, j, B[i, j], A.T[i, j], int(np.sum(~np.isclose(B, A.T))))
        return None
    # pad constant of a ResizingOperator whose range has another dtype
    dom_dt, ran_dt, c = case['dom_dtype'], case['ran_dtype'], case['pad_const']
    X = odl.uniform_discr(0, 4, 4, dtype=dom_dt)
    op = odl.ResizingOperator(X, ran_shp=(6,), pad_const=c, discr_kwargs={'dtype': ran_dt})
    want = np.array(c, dtype=ran_dt)
    if op.pad_const.dtype != np.dtype(ran_dt) or op.pad_const != want:
        return 'ResizingOperator(%s -> %s, pad_const=%r): stored constant %r (%s), expected %r (%s)' % (dom_dt, ran_dt, c, op.pad_const, op.pad_const.dtype, want, want.dtype)
    y = op(X.one()).asarray()
    if y[0] != want or y[-1] != want:
        return 'ResizingOperator(%s -> %s, pad_const=%r): padded values %r, %r, expected %r' % (dom_dt, ran_dt, c, y[0], y[-1], want)
    if op.is_linear != (want == 0):
        return 'ResizingOperator(%s -> %s, pad_const=%r): is_linear = %r' % (dom_dt, ran_dt, c, op.is_linear)
    return None


def unit_resize_nd_bounded():
    """BOUNDED (never counted as proved): resize_array on arrays with 3 and 4 axes (the deductive units are 1-d / 2-d): for all pad modes and grow / shrink mixes the adjoint
    matrix assembled from every basis vector is the transpose of the forward matrix; ResizingOperator stores its padding constant in the dtype of the RANGE."""
    def run(ctx):
        cases = []
        for mode in ('constant', 'periodic', 'symmetric', 'order0', 'order1'):
            for shp, new, off in (((3, 4, 3), (5, 6, 5), (1, 1, 1)), ((3, 4, 3), (5, 2, 6), (1, 1, 2)), ((2, 3, 3, 2), (3, 5, 4, 4), (0, 1, 1, 1)), ((3, 3, 4), (4, 3, 6), (1, 0, 1)), ((4, 4, 4), (3, 6, 2), (1, 1, 1))):
                cases.append({'kind': 'transpose', 'shape': list(shp), 'newshape': list(new), 'offset': list(off), 'pad_mode': mode})
        for dom_dt, ran_dt, c in (('float32', 'float64', 0.1), ('float64', 'float64', 0.1), ('int64', 'float64', 0.5), ('int64', 'float64', -2.75), ('float32', 'float64', 0.0), ('float64', 'float32', 0.1)):
            cases.append({'kind': 'pad_const', 'dom_dtype': dom_dt, 'ran_dtype': ran_dt, 'pad_const': c})
        for case in cases:
            try:
                bad = resize_nd_case_check(case)
            except Exception as e:
                bad = 'raised %s: %s' % (type(e).__name__, e)
            ctx.bounded('n-d resize: adjoint == transpose on every basis vector / pad constant in the dtype of the range', not bad, case, detail=bad)
    return Unit('resize-nd/native', run, funcs=['odl.util.numerics:resize_array', 'odl.util.numerics:_apply_padding', 'odl.discr.discr_ops:ResizingOperator.__init__'], kind='B',
                bounded_in='5 shape pairs with 3-4 axes x 5 pad modes (every basis vector), 6 dtype / constant combinations')


def unit_canary():
    """must-fail: symmetric padding claimed to repeat the edge sample"""
    def run(ctx):
        I = ctx.I

        def path(st):
            setup(st)
            n, m, off = S(z3.Int('n')), S(z3.Int('m')), S(z3.Int('off'))
            st.assume(n >= 3)
            st.assume(m > n)
            st.assume(off >= 1)
            st.assume(off <= m - n)
            admissible(st, 'symmetric', n, off, m - n - off)
            arr = carr.fresh_array('a', (n,), npm.DT('float64'))
            out = call_resize(I, st, arr, (m,), [off], 'symmetric', 0, 'forward')
            k = S(z3.Int('k'))
            st.assume(s_and(k >= 0, k < off))
            return ('ok', (out, arr, k, off))
        for st, (status, (out, arr, k, off)) in ctx.explore(path):
            ctx.prove(st, 'canary', core.sc_eq(out.at((k,)), arr.at((off - k - 1,))), {})
    return Unit('canary/symmetric-with-edge-repeat', run, kind='canary', expect='refuted')


def unit_resize_discr(bl, br, off_kind, grow, second_axis=False):
    """_resize_discr (1 axis, symbolic size / offset / grid): the range partition handed to uniform_partition keeps the cell size of the
    domain and its grid points are those of the domain shifted by whole cells (num_left cells to the left), for every nodes_on_bdry pair"""
    DOPS = 'odl.discr.discr_ops:'

    def run(ctx):
        I = ctx.I
        import numpy as np
        from pyvc.objnp import ONd

        def path(st):
            st.object_arrays = True
            fr = ip.Frame(st)
            n, m = S(z3.Int('n')), S(z3.Int('m'))
            st.assume(n >= 2)
            st.assume(m >= 1)
            st.assume(m > n if grow else m < n)
            g0, h = S(z3.Real('g0')), S(z3.Real('h'))
            st.assume(h > 0)
            off = None
            if off_kind == 'given':
                off = S(z3.Int('off'))
                st.assume(off >= 0)          # entries added to (grow) / removed from (shrink) the left
                st.assume(off <= (m - n if grow else n - m))
            # optional second axis whose size does NOT change (an explicit offset may still be given for it, e.g. a scalar offset for all axes)
            n1, g1, h1 = S(z3.Int('n1')), S(z3.Real('g1')), S(z3.Real('h1'))
            st.assume(n1 >= 2)
            st.assume(h1 > 0)
            off1 = None
            if second_axis and off_kind == 'given':
                off1 = S(z3.Int('off1'))
                st.assume(off1 >= 0)
            calls = []

            class Grid(object):
                def pv_getattr(self, I_, fr_, name):
                    if name == 'min':
                        return ip.Builtin('min', lambda *a: ONd(np.array([g0, g1][:2 if second_axis else 1], dtype=object)))
                    if name == 'max':
                        return ip.Builtin('max', lambda *a: ONd(np.array([g0 + (n - 1) * h, g1 + (n1 - 1) * h1][:2 if second_axis else 1], dtype=object)))
                    raise Unsupported('grid.%s' % name)

            class Part(object):
                def __init__(self, parts=()):
                    self.parts = list(parts)

                def pv_getattr(self, I_, fr_, name):
                    if name == 'append':
                        return ip.Builtin('append', lambda I2, fr2, a, k: Part(self.parts + [a[0]]))
                    raise Unsupported('partition.%s' % name)

            class Discr(object):
                def pv_getattr(self, I_, fr_, name):
                    d = {'ndim': 1, 'dtype': npm.DT('float64'), 'impl': 'numpy', 'exponent': 2.0, 'weighting': None, 'shape': (n,), 'is_uniform_byaxis': (True,),
                         'grid': Grid(), 'cell_sides': ONd(np.array([h], dtype=object))}
                    if second_axis:
                        d.update({'ndim': 2, 'shape': (n, n1), 'is_uniform_byaxis': (True, True), 'cell_sides': ONd(np.array([h, h1], dtype=object))})
                    if name in d:
                        return d[name]
                    raise Unsupported('discr.%s' % name)

            def upart(I_, fr_, min_pt=None, max_pt=None, shape=None, cell_sides=None, nodes_on_bdry=False, **kw):
                if isinstance(shape, tuple) and shape == ():
                    return Part()
                calls.append(dict(min_pt=min_pt, max_pt=max_pt, shape=shape, nodes_on_bdry=nodes_on_bdry))
                return ('axis-partition', len(calls) - 1)
            st.cuts[DOPS + 'uniform_partition'] = upart
            st.cuts['odl.discr.partition:uniform_partition'] = upart
            st.cuts[DOPS + 'tensor_space'] = lambda I_, fr_, *a, **k: ('tspace', a, k)
            st.cuts['odl.space.space_utils:tensor_space'] = lambda I_, fr_, *a, **k: ('tspace', a, k)
            st.cuts[DOPS + 'DiscretizedSpace.__init__'] = lambda I_, fr_, self, part, tspace, **k: self.fields.update({'part': part, 'tspace': tspace})
            st.cuts['odl.discr.discr_space:DiscretizedSpace.__init__'] = lambda I_, fr_, self, part, tspace, **k: self.fields.update({'part': part, 'tspace': tspace})
            from contracts import oplib
            try:
                if second_axis:
                    res = I.call(I.get_func(DOPS + '_resize_discr'), [Discr(), (m, n1), (off, off1), {'nodes_on_bdry': [(bl, br), (br, bl)]}], {}, fr)
                else:
                    res = I.call(I.get_func(DOPS + '_resize_discr'), [Discr(), (m,), (off,), {'nodes_on_bdry': [(bl, br)]}], {}, fr)
            except ip.PyRaise as e:
                return ('raise', e.exc)
            return ('ok', dict(calls=calls, n=n, m=m, g0=g0, h=h, off=off, res=res, n1=n1, g1=g1, h1=h1))
        info = {'nodes_on_bdry': (bl, br), 'offset': off_kind, 'grow': grow}
        for st, (status, r) in ctx.explore(path):
            if status == 'raise':
                ctx.fail(st, 'no_raise', 'raises %s' % lib.exc_desc(r), info)
                continue
            ctx.prove(st, 'one uniform partition is built per axis', len(r['calls']) == (2 if second_axis else 1), info)
            if len(r['calls']) != (2 if second_axis else 1):
                continue
            if second_axis:
                c1 = r['calls'][1]
                n1, g1, h1 = r['n1'], r['g1'], r['h1']
                mn1, mx1 = core.S.lift(c1['min_pt']), core.S.lift(c1['max_pt'])
                d1 = n1 - (0.5 if br else 0.0) - (0.5 if bl else 0.0)
                ctx.prove(st, 'axis of unchanged size: same number of cells, same cell size, same grid points (whatever offset was given for it)',
                          core.s_and(core.sbool(core.sc_eq(core.S.lift(c1['shape']), n1)), core.sbool(core.sc_eq(mx1 - mn1, h1 * d1)), core.sbool(core.sc_eq(mn1 + (0.0 if br else 0.5) * h1, g1))), info)
            c = r['calls'][0]
            n, m, g0, h = r['n'], r['m'], r['g0'], r['h']
            mn, mx = core.S.lift(c['min_pt']), core.S.lift(c['max_pt'])
            ctx.prove(st, 'new partition: requested number of cells and the nodes_on_bdry pair of the caller', core.sc_eq(core.S.lift(c['shape']), m) if not isinstance(c['shape'], bool) else False, info)
            nb = c['nodes_on_bdry']
            ctx.prove(st, 'new partition: nodes_on_bdry handed on', tuple(nb) == (bl, br) if isinstance(nb, (tuple, list)) else False, dict(info, got=repr(nb)))
            # contract of uniform_partition (C14): cell side = (max - min) / (m - (bl + br)/2), first grid point = min + (0 if bl else side/2)
            denom = m - (0.5 if bl else 0.0) - (0.5 if br else 0.0)
            ctx.prove(st, 'cell size is preserved  (max_pt - min_pt) == h * (m - (bl + br)/2)', core.sc_eq(mx - mn, h * denom), info)
            n_diff = m - n
            num_l = (r['off'] if grow else -r['off']) if r['off'] is not None else n_diff - n_diff // 2      # cells added on the left (negative: removed)
            first = mn + (0.0 if bl else 0.5) * h
            ctx.prove(st, 'grid points are the old ones shifted by whole cells  (first new node == g0 - num_left * h)', core.sc_eq(first, g0 - num_l * h), info)
    return Unit('resize_discr/bdry=%s%s/offset=%s/%s%s' % (int(bl), int(br), off_kind, 'grow' if grow else 'shrink', '/with-unchanged-axis' if second_axis else ''), run, funcs=['odl.discr.discr_ops:_resize_discr'],
                config={'nodes_on_bdry': [bl, br], 'offset': off_kind, 'grow': grow, 'second_axis': second_axis})


def unit_resizing_init(bl, br, off_kind, grow, hval=0.5):
    """ResizingOperator.__init__ with `ran_shp` (1 axis, symbolic sizes): the offset it stores - the one _call hands to resize_array, i.e. the
    number of entries added to / removed from the left - agrees with where _resize_discr has put the range grid: the first range node lies
    `offset` cells to the left (grow) resp. right (shrink) of the first domain node; uniform_partition is taken by its contract (C14)"""
    DOPS = 'odl.discr.discr_ops:'

    def run(ctx):
        I = ctx.I
        import numpy as np
        from pyvc.objnp import ONd
        from contracts import oplib

        def path(st):
            st.object_arrays = True
            st.cuts.update(utilcuts.cuts())
            st.cuts.update(oplib.operator_cuts())
            fr = ip.Frame(st)
            n, m = S(z3.Int('n')), S(z3.Int('m'))
            st.assume(n >= 2)
            st.assume(m >= 2)
            st.assume(m > n if grow else m < n)
            g0, h = S(z3.Real('g0')), hval          # the cell size is a configuration (keeps the arithmetic linear); sizes, offset and position are symbolic
            off = None
            if off_kind == 'given':
                off = S(z3.Int('off'))
                st.assume(off >= 0)
                st.assume(off <= (m - n if grow else n - m))

            class Axis(object):
                def __init__(self, grid_min, cell, shape):
                    self.grid_min, self.cell, self.shape = grid_min, cell, shape

            class Grid(object):
                def __init__(self, axes):
                    self.axes = axes

                def pv_getattr(self, I_, fr_, name):
                    if name == 'min':
                        return ip.Builtin('min', lambda *a: ONd(np.array([a_.grid_min for a_ in self.axes], dtype=object)))
                    if name == 'max':
                        return ip.Builtin('max', lambda *a: ONd(np.array([a_.grid_min + (a_.shape - 1) * a_.cell for a_ in self.axes], dtype=object)))
                    raise Unsupported('grid.%s' % name)

            class Part(object):
                def __init__(self, axes=()):
                    self.axes = list(axes)

                def pv_getattr(self, I_, fr_, name):
                    if name == 'append':
                        return ip.Builtin('append', lambda I2, fr2, a, k: Part(self.axes + (a[0].axes if isinstance(a[0], Part) else [a[0]])))
                    d = {'grid': Grid(self.axes), 'shape': tuple(a_.shape for a_ in self.axes), 'ndim': len(self.axes),
                         'cell_sides': ONd(np.array([a_.cell for a_ in self.axes], dtype=object)), 'is_uniform_byaxis': tuple(True for _ in self.axes),
                         'is_uniform': True}
                    if name in d:
                        return d[name]
                    raise Unsupported('partition.%s' % name)

            class TSp(object):
                def pv_getattr(self, I_, fr_, name):
                    d = {'dtype': npm.DT('float64'), 'impl': 'numpy', 'exponent': 2.0, 'weighting': None}
                    if name in d:
                        return d[name]
                    raise Unsupported('tspace.%s' % name)

            def upart(I_, fr_, min_pt=None, max_pt=None, shape=None, cell_sides=None, nodes_on_bdry=False, **kw):
                if isinstance(shape, tuple) and shape == ():
                    return Part()
                nb = nodes_on_bdry if isinstance(nodes_on_bdry, (tuple, list)) else (nodes_on_bdry, nodes_on_bdry)
                mn, mx, sh = core.S.lift(min_pt), core.S.lift(max_pt), core.S.lift(shape)
                denom = sh - (0.5 if nb[0] else 0.0) - (0.5 if nb[1] else 0.0)
                # contract of uniform_partition (proved in C14): cell = (max - min) / denom.  If the path condition already implies that this is the
                # domain's cell size h (a linear fact for concrete h), the quotient is replaced by h - a proved equality, not an assumption
                from pyvc import vc
                if vc.prove(list(st.pc), core.side_conditions(), core.sc_eq(mx - mn, h * denom), quick=True).status == 'proved':
                    cell = core.S.lift(h)
                else:
                    cell = (mx - mn) / denom
                return Axis(mn + (0.0 if nb[0] else 0.5) * cell, cell, shape)
            for k_ in (DOPS + 'uniform_partition', 'odl.discr.partition:uniform_partition'):
                st.cuts[k_] = upart
            for k_ in (DOPS + 'tensor_space', 'odl.space.space_utils:tensor_space'):
                st.cuts[k_] = lambda I_, fr_, *a, **k: TSp()

            def dctor(I_, fr_, self, part, tspace, **k):
                self.fields.update({'_DiscretizedSpace__partition': part, '_DiscretizedSpace__tspace': tspace, '_TensorSpace__shape': part.pv_getattr(I_, fr_, 'shape'),
                                    '_TensorSpace__dtype': npm.DT('float64')})
                self.partial = True
            st.cuts['odl.discr.discr_space:DiscretizedSpace.__init__'] = dctor
            dom = ip.Obj(I.get_class('odl.discr.discr_space:DiscretizedSpace'))
            dctor(I, fr, dom, Part([Axis(g0, h, n)]), TSp())
            try:
                op = I.call(I.get_class(DOPS + 'ResizingOperator'), [dom], {'ran_shp': (m,), 'offset': None if off is None else (off,),
                                                                            'discr_kwargs': {'nodes_on_bdry': [(bl, br)]}}, fr)
                offset = I._getattr(op, 'offset', fr)
                ran = I._getattr(op, 'range', fr)
            except ip.PyRaise as e:
                return ('raise', e.exc)
            return ('ok', dict(offset=offset, ran=ran, n=n, m=m, g0=g0, h=h, off=off))
        info = {'nodes_on_bdry': (bl, br), 'offset': off_kind, 'grow': grow}
        n_ok = 0
        for st, (status, r) in ctx.explore(path):
            if status == 'raise':
                ctx.fail(st, 'no_raise', 'raises %s' % lib.exc_desc(r), info)
                continue
            n_ok += 1
            offv = r['offset']
            offv = offv[0] if isinstance(offv, (tuple, list)) else (offv.a.reshape(-1)[0] if hasattr(offv, 'a') else offv)
            offv = core.S.lift(offv)
            ax = r['ran'].fields['_DiscretizedSpace__partition'].axes[0]
            n, m, g0, h = r['n'], r['m'], r['g0'], r['h']
            ctx.prove(st, 'stored offset is non-negative and at most |m - n|', s_and(core.sbool(offv >= 0), core.sbool(offv <= (m - n if grow else n - m))), info)
            if r['off'] is not None:
                ctx.prove(st, 'a given offset is stored unchanged', core.sc_eq(offv, r['off']), info)
            sign = -1 if grow else 1
            ctx.prove(st, 'stored offset == position of the range grid relative to the domain grid  (first range node == g0 %s offset * h)' % ('-' if grow else '+'),
                      core.sc_eq(core.S.lift(ax.grid_min), g0 + sign * offv * h), info)
            ctx.prove(st, 'range keeps the cell size', core.sc_eq(core.S.lift(ax.cell), h), info)
        if n_ok == 0:
            ctx.unsupported('unit', 'no path completes normally (vacuous)')
    return Unit('resizing_init/bdry=%s%s/offset=%s/%s/h=%s' % (int(bl), int(br), off_kind, 'grow' if grow else 'shrink', hval), run, bounded_in='cell size h in {1/2, 3} (configuration)',
                funcs=['odl.discr.discr_ops:ResizingOperator.__init__', 'odl.discr.discr_ops:_offset_from_spaces', 'odl.discr.discr_ops:_resize_discr'],
                config={'nodes_on_bdry': [bl, br], 'offset': off_kind, 'grow': grow, 'h': hval})


def units(tier, seed):
    us = []
    for bl, br in ((False, False), (True, True), (True, False), (False, True)):
        for ok in ('none', 'given'):
            for grow in (True, False):
                us.append(unit_resize_discr(bl, br, ok, grow))
                us.append(unit_resize_discr(bl, br, ok, grow, second_axis=True))
                for hv in (0.5, 3.0):
                    us.append(unit_resizing_init(bl, br, ok, grow, hv))
    for mode in MODES:
        for kind in ('grow', 'shrink', 'same'):
            us.append(unit_forward_1d(mode, kind))
        for kinds in (('grow', 'grow'), ('grow', 'shrink'), ('shrink', 'grow')):
            us.append(unit_forward_2d(mode, kinds))
        for kind in ('grow', 'shrink'):
            us.append(unit_transpose_1d(mode, kind))
        for kinds in (('grow', 'shrink'), ('shrink', 'grow'), ('grow', 'grow')):
            if mode == 'order1' and kinds == ('grow', 'grow'):
                continue        # moment sums in both axes: the unit no longer finishes within any practical limit (> 3000 s) - NOT decided, listed in META['not_decided']
            u = unit_transpose_2d(mode, kinds)
            u.timeout = 900 if tier == 'thorough' else 240
            us.append(u)
        us.append(unit_crop(mode))
    us.append(unit_errors())
    us.append(unit_util_bounded())
    us.append(unit_resize_nd_bounded())
    us.append(unit_canary())
    return us


def replay_discr(ob):
    """native: ResizingOperator(domain, ran_shp=, offset=, discr_kwargs={'nodes_on_bdry': ..}) on small 1-d spaces: unchanged cell size, and every value
    that is kept sits at the grid point where it was sampled"""
    import os
    import sys
    root = os.environ.get('PYVC_REPO', '/repo')
    if root not in sys.path:
        sys.path.insert(0, root)
    import warnings
    warnings.filterwarnings('ignore')
    import numpy as np
    import odl
    cfg = ob.get('config') or {}
    bl, br = cfg.get('nodes_on_bdry', [False, False])
    grow, given = cfg.get('grow'), cfg.get('offset') == 'given'
    try:
        if cfg.get('second_axis'):
            # axis 0 resized, axis 1 of unchanged size with an explicit offset given for it as well
            for n in (4, 5):
                for m in ((n + 2,) if grow else (n - 2,)):
                    for off in ((0, 1, 2) if given else (None,)):
                        X = odl.uniform_discr([0.5, -1.0], [0.5 + n, 2.0], (n, 3), nodes_on_bdry=[(bl, br), (br, bl)])
                        for off1 in ((0, 1, 2) if given else (None,)):
                            op = odl.ResizingOperator(X, ran_shp=(m, 3), offset=None if off is None else (off, off1), discr_kwargs={'nodes_on_bdry': [(bl, br), (br, bl)]})
                            ga, gb = X.grid.coord_vectors[1], op.range.grid.coord_vectors[1]
                            if not np.allclose(ga, gb) or not np.allclose(op.range.cell_sides, X.cell_sides):
                                return {'reproduced': True, 'detail': 'shape (%d, 3) -> (%d, 3), offset %r, nodes_on_bdry %r: the axis of unchanged size has grid points %r in the range, %r in the domain'
                                        % (n, m, (off, off1), (bl, br), gb, ga)}
            return {'reproduced': False, 'detail': 'axes of unchanged size keep their grid natively'}
        for n in (4, 5, 6):
            for m in ((n + 1, n + 3) if grow else (n - 1, n - 2)):
                for off in ((range(0, abs(m - n) + 1)) if given else (None,)):
                    X = odl.uniform_discr(0.5, 0.5 + n, n, nodes_on_bdry=(bl, br))
                    op = odl.ResizingOperator(X, ran_shp=(m,), offset=None if off is None else (off,), discr_kwargs={'nodes_on_bdry': (bl, br)})
                    if not np.allclose(op.range.cell_sides, X.cell_sides):
                        return {'reproduced': True, 'detail': 'n=%d -> m=%d, offset %r, nodes_on_bdry %r: cell sides %r != %r' % (n, m, off, (bl, br), op.range.cell_sides, X.cell_sides)}
                    x = X.element(np.arange(1.0, n + 1))
                    y = op(x).asarray()
                    gx, gy = X.grid.coord_vectors[0], op.range.grid.coord_vectors[0]
                    for j, pt in enumerate(gy):
                        k = np.where(np.isclose(gx, pt))[0]
                        if len(k) and y[j] != 0 and not np.isclose(y[j], x[k[0]]):
                            return {'reproduced': True, 'detail': 'n=%d -> m=%d, offset %r, nodes_on_bdry %r: value %r sampled at %r sits at range grid point %r (range %r)' % (
                                n, m, off, (bl, br), y[j], gx[int(y[j]) - 1], pt, op.range.partition)}
                    kept = set(y[y != 0])
                    on_grid = set(x.asarray()[[i for i, p_ in enumerate(gx) if np.any(np.isclose(gy, p_))]])
                    if not kept <= on_grid:
                        return {'reproduced': True, 'detail': 'n=%d -> m=%d, offset %r, nodes_on_bdry %r: kept values %r are not the ones sampled inside the range %r' % (n, m, off, (bl, br), sorted(kept), op.range.partition)}
    except Exception as e:
        return {'reproduced': False, 'detail': 'native evaluation raised %s: %s' % (type(e).__name__, e)}
    return {'reproduced': False, 'detail': 'range geometry consistent with the array operation natively'}


def replay(ob):
    if ob['unit'].startswith('resize-nd/'):
        case = ob.get('model') or (ob.get('replay') or {}).get('case')
        try:
            bad = resize_nd_case_check(case)
        except Exception as e:
            bad = 'raised %s: %s' % (type(e).__name__, e)
        return {'reproduced': bool(bad), 'detail': bad or 'holds natively', 'input': case}
    if ob['unit'].startswith('resize_discr/') or ob['unit'].startswith('resizing_init/'):
        return replay_discr(ob)
    from contracts import replay_resize
    return replay_resize.replay(ob)
