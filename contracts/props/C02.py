"""C02 - inner product, norm and distance obey their axioms and the documented weighting.

tensor/*     _inner_default / _norm_default / _pnorm_default / _pnorm_diagweight and the constant / array weighting
             classes of NumPy tensor spaces (inner, norm, dist; exponents 2, 1, inf, generic p): the returned number
             equals the documented weighted sum - c * SUM(x conj y), SUM(w x conj y), (SUM w |x|^p)^(1/p), c * MAX|x| -
             for every size regime (tensordot / dot / vdot / BLAS nrm2 paths), real and complex dtype, every
             contiguity; both operands are raveled in the SAME order (K5).
discr/*      DiscretizedSpace._inner/_norm/_dist on non-uniformly weighted (nodes on the boundary) spaces:
             apply_on_boundary scales with the product of the boundary-cell fractions of all axes (ndim 1, 2).
axioms/*     consequences of the closed form (T): conjugate symmetry, linearity in the first argument,
             norm^2 = inner(x, x), dist(x, y) = norm(x - y) symmetric - discharged from the sum axioms.
"""
import numpy as np
import z3

from pyvc import core, interp as ip, odlmodel as om, npmodel as npm
from pyvc.core import S, C, V, VVar, VConst, VLin, VPw, Unsupported, s_if, s_and, s_or, s_not
from pyvc.harness import Unit
from pyvc.objnp import ONd
from contracts import lib

NPT = 'odl.space.npy_tensors:'

META = {
    'level': 'proof',
    'trusted_base': [
        'pyvc symbolic interpreter (A7); kernel contracts K3-K5 (ravel views, BLAS dot/nrm2, np.dot / vdot / tensordot / linalg.norm as sums over the index set, '
        'invariant under a COMMON permutation of the index set)',
        'sums are linear in their summand and congruent (equal summands give equal sums); A1 reals; A3 positive weights',
        'Cauchy-Schwarz and the triangle inequality are theorems about the proved closed form (weighted sums with positive weights), not obligations on code',
    ],
    'assumptions': ['A1', 'A3', 'A5', 'A7'],
    'not_decided': ['ProductSpace weightings (component sums), custom inner/norm/dist (A4), MatrixWeighting',
                    'DiscretizedSpace boundary scaling for ndim >= 3'],
}

CFG = [('float64', 'real'), ('complex128', 'complex'), ('float32', 'real')]


def setup(I, st, dt, ndim=2):
    sb = om.TensorSpaceBuilder(I, dt, ndim=ndim)
    for c in sb.constraints:
        st.assume(c)
    return sb


def summand(st, t):
    return st.lower(t)


def sum_of(st, fr, t):
    return st.reductions.reduce(fr, 'sum', t)


def conj_of(v, field):
    return v if field != 'complex' else VPw('conj', (v,))


def unit_inner_default(dt, field):
    def run(ctx):
        I = ctx.I
        f = I.get_func(NPT + '_inner_default')

        def path(st):
            sb = setup(I, st, dt)
            x, y = sb.element('x'), sb.element('y')
            fr = ip.Frame(st)
            try:
                r = I.call(f, [x, y], {}, fr)
            except ip.PyRaise as e:
                return ('raise', e.exc)
            want = sum_of(st, fr, core.vmul(VVar('x', field), conj_of(VVar('y', field), field)))
            return ('ok', (r, want, x, y))
        info = {'dtype': dt}
        for st, (status, r) in ctx.explore(path):
            if status == 'raise':
                ctx.fail(st, 'no_raise', 'raises %s%r' % (lib.exc_name(r), r.fields.get('args')), info)
                continue
            got, want, x, y = r
            ctx.prove(st, '_inner_default(x, y) == SUM(x * conj(y))', core.sc_eq(got, want), info, replay={'kind': 'inner', 'dtype': dt})
            for e in lib.bad_events(st):
                ctx.fail(st, 'operands raveled in the same order / BLAS preconditions', repr(e), info, replay={'kind': 'inner', 'dtype': dt})
            ctx.prove(st, 'frame: operands unchanged', s_and(lib.eq_goal(st.lower, x.buf.content, VVar('x', field)), lib.eq_goal(st.lower, y.buf.content, VVar('y', field))), info)
    return Unit('tensor/_inner_default/%s' % dt, run, funcs=[NPT + '_inner_default'], config={'dtype': dt})


def pnorm_spec(st, fr, t, p, w=None, field='real'):
    """(SUM w |t|^p)^(1/p);  p = inf: MAX w |t|"""
    a = VPw('abs', (t,))
    if p == float('inf'):
        return st.reductions.reduce(fr, 'max', a if w is None else core.vmul(a, w))
    if p == 2 and w is None:
        return core.ssqrt(sum_of(st, fr, VPw('abs2', (t,))))
    if p == 1:
        return sum_of(st, fr, a if w is None else core.vmul(a, w))
    ap = VPw('power', (a, p))
    s = sum_of(st, fr, ap if w is None else core.vmul(ap, w))
    return s ** (1 / p)       # the exponent as the code computes it (python float)


def unit_norms(dt, field):
    def run(ctx):
        I = ctx.I
        for fn, p in (('_norm_default', 2), ('_pnorm_default', 1), ('_pnorm_default', float('inf')), ('_pnorm_default', 3.0),
                      ('_pnorm_diagweight', 1), ('_pnorm_diagweight', float('inf')), ('_pnorm_diagweight', 3.0)):
            f = I.get_func(NPT + fn)

            def path(st, fn=fn, p=p, f=f):
                sb = setup(I, st, dt)
                x = sb.element('x')
                fr = ip.Frame(st)
                w = None
                try:
                    if fn == '_norm_default':
                        r = I.call(f, [x], {}, fr)
                    elif fn == '_pnorm_default':
                        r = I.call(f, [x, p], {}, fr)
                    else:
                        wbuf = npm.Buf(VVar('w', 'real'), npm.DT('float64'), sb.shape, S(z3.Bool('w.c_contig')), S(z3.Bool('w.f_contig')), name='w')
                        st.assume(st.lower(VVar('w', 'real')) > 0)
                        w = VVar('w', 'real')
                        r = I.call(f, [x, p, npm.PArr(wbuf)], {}, fr)
                except ip.PyRaise as e:
                    return ('raise', e.exc)
                want = pnorm_spec(st, fr, VVar('x', field), p, w, field)
                return ('ok', (r, want))
            info = {'dtype': dt, 'function': fn, 'p': str(p)}
            for st, (status, r) in ctx.explore(path):
                if status == 'raise':
                    ctx.fail(st, 'no_raise', 'raises %s%r' % (lib.exc_name(r), r.fields.get('args')), info)
                    continue
                got, want = r
                ctx.prove(st, '%s == documented (weighted) p-norm' % fn, core.sc_eq(got, want), info)
                for e in lib.bad_events(st):
                    ctx.fail(st, 'operands raveled in the same order / BLAS preconditions', repr(e), info)
    return Unit('tensor/norms/%s' % dt, run, funcs=[NPT + '_norm_default', NPT + '_pnorm_default', NPT + '_pnorm_diagweight'], config={'dtype': dt})


def unit_weighting(kind, dt, field, exponent):
    """NumpyTensorSpaceConstWeighting / ArrayWeighting: inner, norm, dist"""
    def run(ctx):
        I = ctx.I
        clsname = 'NumpyTensorSpaceConstWeighting' if kind == 'const' else 'NumpyTensorSpaceArrayWeighting'
        cls = I.get_class(NPT + clsname)
        meths = ['norm', 'dist'] + (['inner'] if exponent == 2.0 else [])
        if kind == 'array':
            meths = [m for m in meths if m != 'dist' or True]
        for meth in meths:
            def path(st, meth=meth):
                sb = setup(I, st, dt)
                fr = ip.Frame(st)
                if kind == 'const':
                    c = S(z3.Real('c'))
                    st.assume(c > 0)
                    wobj = I.call(cls, [c], {'exponent': exponent}, fr)
                    wterm = VConst(c)
                else:
                    wbuf = npm.Buf(VVar('w', 'real'), npm.DT('float64'), sb.shape, S(z3.Bool('w.c_contig')), S(z3.Bool('w.f_contig')), name='w')
                    st.assume(st.lower(VVar('w', 'real')) > 0)
                    wobj = I.call(cls, [npm.PArr(wbuf)], {'exponent': exponent}, fr)
                    wterm = VVar('w', 'real')
                sb.space.fields['_NumpyTensorSpace__weighting'] = wobj
                # element arithmetic used by dist (x1 - x2) and by x1 * self.array: contracts of C01
                from contracts.props.C01 import tensor_space_cuts
                st.cuts.update(tensor_space_cuts(sb))
                x, y = sb.element('x'), sb.element('y')
                xv, yv = VVar('x', field), VVar('y', field)
                try:
                    if meth == 'inner':
                        r = I.call(I._getattr(wobj, 'inner', fr), [x, y], {}, fr)
                        want = sum_of(st, fr, core.vmul(wterm, core.vmul(xv, conj_of(yv, field)))) if kind == 'array' else \
                            core._sc(wterm.c) * sum_of(st, fr, core.vmul(xv, conj_of(yv, field)))
                    else:
                        t = xv if meth == 'norm' else VLin([(1, xv), (-1, yv)])
                        r = I.call(I._getattr(wobj, meth, fr), [x] if meth == 'norm' else [x, y], {}, fr)
                        if kind == 'const':
                            cc = core._sc(wterm.c)
                            if exponent == 2.0:
                                want = core.ssqrt(cc) * pnorm_spec(st, fr, t, 2, None, field)
                            elif exponent == float('inf'):
                                want = cc * pnorm_spec(st, fr, t, exponent, None, field)
                            else:
                                want = cc ** (1 / exponent) * pnorm_spec(st, fr, t, exponent, None, field)
                        else:
                            if exponent == 2.0:
                                ip_ = sum_of(st, fr, core.vmul(wterm, core.vmul(t, conj_of(t, field))))
                                want = core.ssqrt(ip_.real if isinstance(ip_, C) else ip_)
                            else:
                                want = pnorm_spec(st, fr, t, exponent, wterm, field)
                except ip.PyRaise as e:
                    return ('raise', e.exc)
                return ('ok', (r, want))
            info = {'weighting': kind, 'dtype': dt, 'exponent': str(exponent), 'method': meth}
            for st, (status, r) in ctx.explore(path):
                if status == 'raise':
                    ctx.fail(st, 'no_raise', 'raises %s%r' % (lib.exc_name(r), r.fields.get('args')), info)
                    continue
                got, want = r
                if kind == 'array' and exponent == 2.0 and meth in ('norm', 'dist'):
                    # sum of w |t|^2 is >= 0 (A3): the clamp at 0 is unreachable
                    pass
                ctx.prove(st, '%s == documented weighted value' % meth, core.sc_eq(got, want), info)
                for e in lib.bad_events(st):
                    ctx.fail(st, 'operands raveled in the same order / BLAS preconditions', repr(e), info)
    return Unit('tensor/weighting/%s/%s/p=%s' % (kind, dt, exponent), run, funcs=[NPT + ('NumpyTensorSpaceConstWeighting' if kind == 'const' else 'NumpyTensorSpaceArrayWeighting') + '.' + m for m in ('inner', 'norm', 'dist')],
                config={'weighting': kind, 'dtype': dt, 'exponent': str(exponent)})


# --------------------------------------------------------------------------
# discretized spaces: boundary-cell quadrature weights

NU = 'odl.util.numerics:'
DS = 'odl.discr.discr_space:'


def frac_factor(fracs, ns, k, p):
    """F(k)^(1/p) with F(k) = prod_ax frac_ax(k_ax); frac_ax = frac_l at index 0, frac_r at the last index (both for a
    single-sample axis), 1 elsewhere; factors equal to 1 are skipped by the code (np.isclose == exact equality, K8)"""
    f = S.lift(1.0)
    for (fl, fr_), n, ki in zip(fracs, ns, k):
        e = (lambda v: v) if p == 1.0 else ((lambda v: core.ssqrt(v)) if p == 2.0 else (lambda v: v ** (1 / p)))
        f = f * s_if(core.sc_eq(ki, 0), e(fl), 1.0) * s_if(core.sc_eq(ki, n - 1), e(fr_), 1.0)
    return f


def unit_boundary(ndim, p):
    """apply_on_boundary(x, _scaling_func_list(fracs, p), only_once=False) == F^(1/p) * x at every index"""
    from pyvc import carr

    def run(ctx):
        I = ctx.I
        sfl = I.get_func(DS + '_scaling_func_list')
        aob = I.get_func(NU + 'apply_on_boundary')

        def path(st):
            st.closure_arrays = True
            ns = [S(z3.Int('n%d' % a)) for a in range(ndim)]
            fracs = []
            for a in range(ndim):
                st.assume(ns[a] >= 1)
                fl, fr_ = S(z3.Real('fl%d' % a)), S(z3.Real('fr%d' % a))
                st.assume(s_and(fl > 0, fr_ > 0))
                fracs.append((fl, fr_))
            x = carr.fresh_array('x', tuple(ns), npm.DT('float64'))
            fr = ip.Frame(st)
            try:
                fl_ = I.call(sfl, [tuple(fracs)], {'exponent': p}, fr)
                out = I.call(aob, [x], {'func': fl_, 'only_once': False}, fr)
            except ip.PyRaise as e:
                return ('raise', e.exc)
            k = [S(z3.Int('k%d' % a)) for a in range(ndim)]
            for ki, n in zip(k, ns):
                st.assume(s_and(ki >= 0, ki < n))
            return ('ok', (out, x, fracs, ns, k))
        info = {'ndim': ndim, 'p': p}
        for st, (status, r) in ctx.explore(path):
            if status == 'raise':
                ctx.fail(st, 'no_raise', 'raises %s%r' % (lib.exc_name(r), r.fields.get('args')), info)
                continue
            out, x, fracs, ns, k = r
            want = frac_factor(fracs, ns, k, p) * x.at(tuple(k))
            ctx.prove(st, 'boundary scaling: out(k) == prod_ax frac_ax(k_ax)^(1/p) * x(k) (corners get the product)', core.sc_eq(out.at(tuple(k)), want), info)
            ctx.prove(st, 'input array unchanged', core.sc_eq(x.at(tuple(k)), carr.fresh_array('x', tuple(ns)).at(tuple(k))), info)
    return Unit('discr/boundary-scaling/%dd/p=%s' % (ndim, p), run, funcs=[NU + 'apply_on_boundary', DS + '_scaling_func_list'],
                config={'ndim': ndim, 'p': p}, bounded_in='ndim = %d' % ndim)


def unit_discr_flag(ndim, exponent, weighted):
    """DiscretizedSpace.is_uniformly_weighted (the cached flag that switches the boundary scaling of _inner / _norm / _dist off): True exactly when every boundary cell
    fraction equals 1, or the exponent is inf, or the tensor space is unweighted - so the scaling is skipped only where it is the identity (fractions 1) or not defined.
    Fractions symbolic (> 0); a node lies on the boundary exactly when its fraction is 1/2."""
    from contracts.props.C14 import Light

    def run(ctx):
        I = ctx.I
        cls = I.get_class(DS + 'DiscretizedSpace')

        def path(st):
            fracs = []
            for a in range(ndim):
                fl, fr_ = S(z3.Real('fl%d' % a)), S(z3.Real('fr%d' % a))
                st.assume(s_and(fl > 0, fr_ > 0))
                fracs.append((fl, fr_))
            half = core._sc(0.5)
            on_bdry = tuple((core.sc_eq(fl, half), core.sc_eq(fr_, half)) for fl, fr_ in fracs)
            st.object_arrays = True
            tspace = Light(['TensorSpace'], {'is_weighted': bool(weighted)})
            part = Light(['RectPartition'], {'boundary_cell_fractions': tuple(fracs), 'is_uniform': True, 'nodes_on_bdry_byaxis': on_bdry,
                                             'nodes_on_bdry': on_bdry if ndim > 1 else on_bdry[0], 'ndim': ndim})
            space = ip.Obj(cls)
            space.fields['_DiscretizedSpace__tspace'] = tspace
            space.fields['_DiscretizedSpace__partition'] = part
            st.cuts[DS + 'DiscretizedSpace.exponent'] = lambda I2, fr2, self: exponent
            fr = ip.Frame(st)
            try:
                flag = I._getattr(space, 'is_uniformly_weighted', fr)
                flag2 = I._getattr(space, 'is_uniformly_weighted', fr)
            except ip.PyRaise as e:
                return ('raise', e.exc)
            return ('ok', (flag, flag2, fracs))
        info = {'ndim': ndim, 'exponent': exponent, 'tspace_weighted': weighted}
        for st, (status, r) in ctx.explore(path):
            if status == 'raise':
                ctx.fail(st, 'no_raise', 'raises %s' % lib.exc_desc(r), info)
                continue
            flag, flag2, fracs = r
            all_one = s_and(*[core.sc_eq(f, core._sc(1.0)) for pair in fracs for f in pair])
            want = s_or(all_one, exponent == float('inf'), not weighted)
            fb = flag if isinstance(flag, bool) else core.sbool(flag) if hasattr(core, 'sbool') else flag
            ctx.prove(st, 'flag == (all boundary fractions are 1) or exponent == inf or tensor space unweighted', core.sc_eq(fb, want) if not isinstance(fb, bool) else (want if fb else s_not(want)), info,
                      replay={'kind': 'discr', 'method': '_norm'})
            ctx.prove(st, 'the cached value is returned on the second access', flag2 is flag or (isinstance(flag, bool) and flag2 == flag), info)
    return Unit('discr/is_uniformly_weighted/%dd/p=%s/%s' % (ndim, exponent, 'weighted' if weighted else 'unweighted'), run, funcs=[DS + 'DiscretizedSpace.is_uniformly_weighted'],
                config={'ndim': ndim, 'exponent': exponent, 'tspace_weighted': weighted})


def unit_discr_methods(meth, ndim):
    """DiscretizedSpace._inner/_norm/_dist on a uniform, non-uniformly weighted space: the operands handed to the
    tensor space are the boundary-scaled arrays (exponent 1 for inner, the space exponent for norm / dist)"""
    from pyvc import carr
    from contracts.props.C14 import Light, method

    def run(ctx):
        I = ctx.I
        f = I.get_func(DS + 'DiscretizedSpace.' + meth)
        cls = I.get_class(DS + 'DiscretizedSpace')

        def path(st):
            st.closure_arrays = True
            ns = [S(z3.Int('n%d' % a)) for a in range(ndim)]
            fracs = []
            for a in range(ndim):
                st.assume(ns[a] >= 2)
                fl, fr_ = S(z3.Real('fl%d' % a)), S(z3.Real('fr%d' % a))
                st.assume(s_and(fl > 0, fr_ > 0))
                fracs.append((fl, fr_))
            calls = []

            class TElem(object):
                def __init__(self, arr):
                    self.arr = arr

            def rec(name):
                return method(lambda *a: calls.append((name, a)) or S(z3.Real('result')))
            tspace = Light(['TensorSpace'], {'inner': rec('inner'), 'norm': rec('norm'), 'dist': rec('dist'),
                                             'element': method(lambda arr, **kw: TElem(arr))})
            part = Light(['RectPartition'], {'boundary_cell_fractions': tuple(fracs), 'is_uniform': True})
            space = ip.Obj(cls)
            space.fields['_DiscretizedSpace__tspace'] = tspace
            space.fields['_DiscretizedSpace__partition'] = part
            p = 2.0
            st.cuts[DS + 'DiscretizedSpace.is_uniformly_weighted'] = lambda I2, fr2, self: False
            st.cuts[DS + 'DiscretizedSpace.exponent'] = lambda I2, fr2, self: p
            xa = carr.fresh_array('x', tuple(ns), npm.DT('float64'))
            ya = carr.fresh_array('y', tuple(ns), npm.DT('float64'))

            class DElem(object):
                def __init__(self, arr, name):
                    self.arr, self.name = arr, name
                    self.tensor = TElem(arr)

                def pv_asarray(self, I2, fr2):
                    return self.arr

                def pv_getattr(self, I2, fr2, nm):
                    if nm == 'tensor':
                        return self.tensor
                    raise ip.PyRaise(I2.make_exc('AttributeError', nm))
            x, y = DElem(xa, 'x'), DElem(ya, 'y')
            fr = ip.Frame(st)
            try:
                I.call(f, [space, x] + ([y] if meth != '_norm' else []), {}, fr)
            except ip.PyRaise as e:
                return ('raise', e.exc)
            k = [S(z3.Int('k%d' % a)) for a in range(ndim)]
            for ki, n in zip(k, ns):
                st.assume(s_and(ki >= 0, ki < n))
            return ('ok', (calls, xa, ya, fracs, ns, k, p))
        info = {'method': meth, 'ndim': ndim}
        for st, (status, r) in ctx.explore(path):
            if status == 'raise':
                ctx.fail(st, 'no_raise', 'raises %s%r' % (lib.exc_name(r), r.fields.get('args')), info)
                continue
            calls, xa, ya, fracs, ns, k, p = r
            want_name = meth.strip('_')
            ok = len(calls) == 1 and calls[0][0] == want_name
            ctx.prove(st, 'delegates once to tspace.%s' % want_name, ok, info)
            if not ok:
                continue
            args = calls[0][1]
            kt = tuple(k)
            pe = 1.0 if meth == '_inner' else p
            F = frac_factor(fracs, ns, k, pe)
            ctx.prove(st, 'first operand is the boundary-scaled array F^(1/p) * x (p = 1 for the inner product)', core.sc_eq(args[0].arr.at(kt), F * xa.at(kt)), info,
                      replay={'kind': 'discr', 'method': meth})
            if meth == '_inner':
                ctx.prove(st, 'second operand is y itself', core.sc_eq(args[1].arr.at(kt), ya.at(kt)), info)
            elif meth == '_dist':
                ctx.prove(st, 'second operand is the boundary-scaled array F^(1/p) * y', core.sc_eq(args[1].arr.at(kt), F * ya.at(kt)), info,
                          replay={'kind': 'discr', 'method': meth})
    return Unit('discr/%s/%dd' % (meth, ndim), run, funcs=[DS + 'DiscretizedSpace.' + meth], config={'method': meth, 'ndim': ndim}, bounded_in='ndim = %d' % ndim)


PSPACE = 'odl.space.pspace:'


def unit_pspace_weighting(kind, field, exponent, k=2):
    """ProductSpaceArrayWeighting / ProductSpaceConstWeighting on k components known only through their own inner product / norm (g_i = <x_i, y_i>,
    arbitrary complex numbers for a complex space; n_i = ||x_i|| >= 0): inner == sum_i w_i g_i (linear, NOT conjugated, in the component inner
    products), norm == sqrt(Re inner(x, x)) for p = 2, sum_i w_i n_i for p = 1, max_i w_i n_i for p = inf (documented), dist likewise."""
    def run(ctx):
        I = ctx.I
        cls = I.get_class(PSPACE + ('ProductSpaceArrayWeighting' if kind == 'array' else 'ProductSpaceConstWeighting'))
        meths = (['inner', 'norm'] if exponent == 2.0 else ['norm']) + (['dist'] if kind == 'const' else [])
        for meth in meths:
            def path(st, meth=meth):
                st.object_arrays = True
                fr = ip.Frame(st)
                dt = npm.DT('complex128' if field == 'complex' else ('int64' if field == 'int' else 'float64'))       # 'int': integer-dtype components - their norms are still real numbers
                if kind == 'array':
                    ws = [S(z3.Real('w%d' % i)) for i in range(k)]
                    for w in ws:
                        st.assume(w > 0)
                    warr = np.empty(k, dtype=object)
                    for i, w in enumerate(ws):
                        warr[i] = w
                    wobj = ip.Obj(cls)
                    wobj.fields.update({'_ArrayWeighting__array': ONd(warr), '_Weighting__exponent': exponent, '_Weighting__impl': 'numpy'})
                else:
                    c = S(z3.Real('c'))
                    st.assume(c > 0)
                    ws = [c] * k
                    wobj = ip.Obj(cls)
                    wobj.fields.update({'_ConstWeighting__const': c, '_Weighting__exponent': exponent, '_Weighting__impl': 'numpy'})
                gram = {}

                def g(a, b):
                    """<a_i, b_i> of the component space: an arbitrary sesquilinear value per (vector, vector, component)"""
                    key = (a.name, b.name, a.i)
                    if key not in gram:
                        re = S(z3.Real('g_%s%s%d.re' % key))
                        if field == 'complex' and a.name != b.name:
                            gram[key] = C(re, S(z3.Real('g_%s%s%d.im' % key)))
                            gram[(b.name, a.name, a.i)] = gram[key].conjugate()
                        else:
                            if a.name == b.name:
                                st.assume(re >= 0)
                            gram[key] = C(re, core.S.lift(0.0)) if field == 'complex' else re
                            gram[(b.name, a.name, a.i)] = gram[key]
                    return gram[key]

                class SpaceStub(object):
                    def pv_getattr(self, I_, fr_, name):
                        if name == 'dtype':
                            return dt
                        if name == 'field':
                            return om.field_obj(I_, 'real' if field == 'int' else field)
                        raise Unsupported('component space .%s' % name)

                class Comp(object):
                    def __init__(self, name, i):
                        self.name, self.i = name, i

                    def pv_getattr(self, I_, fr_, name):
                        if name == 'inner':
                            return ip.Builtin('inner', lambda I2, fr2, a, kw: g(self, a[0]))
                        if name == 'norm':
                            def nrm(I2, fr2, a, kw):
                                v = g(self, self)
                                return core.ssqrt(v.re if isinstance(v, C) else v)
                            return ip.Builtin('norm', nrm)
                        if name == 'dtype':
                            return dt
                        if name == 'space':
                            return SpaceStub()
                        raise Unsupported('component .%s' % name)

                    def pv_binop(self, I_, fr_, opname, other):
                        if opname == '__sub__' and isinstance(other, Comp):
                            return Comp('(%s-%s)' % (self.name, other.name), self.i)
                        return ip.NOTIMPL

                class PVec(object):
                    def __init__(self, name):
                        self.comps = [Comp(name, i) for i in range(k)]

                    def pv_iter(self, I_, fr_):
                        return iter(self.comps)

                    def pv_getitem(self, I_, fr_, idx):
                        return self.comps[int(idx)]

                    def pv_len(self, I_, fr_):
                        return k

                    def pv_getattr(self, I_, fr_, name):
                        if name == 'space':
                            return SpaceStub()
                        raise Unsupported('product space element .%s' % name)
                x, y = PVec('x'), PVec('y')
                args = [x, y] if meth in ('inner', 'dist') else [x]
                try:
                    r = I.call(I._getattr(wobj, meth, fr), args, {}, fr)
                except ip.PyRaise as e:
                    return ('raise', e.exc)
                return ('ok', dict(r=r, ws=ws, g=g, x=x, y=y, Comp=Comp))
            info = {'weighting': kind, 'field': field, 'exponent': exponent, 'method': meth, 'components': k}
            for st, (status, r) in ctx.explore(path):
                if status == 'raise':
                    ctx.fail(st, 'no_raise', '%s raises %s' % (meth, lib.exc_desc(r)), info)
                    continue
                ws, g, x, y = r['ws'], r['g'], r['x'], r['y']
                got = r['r']
                if meth == 'inner':
                    want = None
                    for i in range(k):
                        t = g(x.comps[i], y.comps[i]) * ws[i]
                        want = t if want is None else want + t
                    ctx.prove(st, 'inner == sum_i w_i <x_i, y_i>  (real and imaginary part; linear in the component inner products)', core.sc_eq(got, want), info)
                    continue
                if meth == 'norm':
                    ns2 = [g(c, c) for c in x.comps]
                else:
                    ns2 = [g(r['Comp']('(x-y)', i), r['Comp']('(x-y)', i)) for i in range(k)]
                ns2 = [v.re if isinstance(v, C) else v for v in ns2]
                got = core.S.lift(got)
                if exponent == 2.0:
                    tot = None
                    for i in range(k):
                        tot = ns2[i] * ws[i] if tot is None else tot + ns2[i] * ws[i]
                    ctx.prove(st, '%s >= 0 and %s^2 == sum_i w_i ||.||_i^2' % (meth, meth), core.s_and(got >= 0, core.sbool(core.sc_eq(got * got, tot))), info)
                elif exponent == 1.0:
                    tot = None
                    for i in range(k):
                        n_i = core.ssqrt(ns2[i])
                        tot = n_i * ws[i] if tot is None else tot + n_i * ws[i]
                    ctx.prove(st, '%s == sum_i w_i ||.||_i' % meth, core.sc_eq(got, tot), info)
                else:
                    terms = [core.ssqrt(ns2[i]) * ws[i] for i in range(k)]
                    ctx.prove(st, '%s == max_i w_i ||.||_i  (upper bound attained)' % meth,
                              core.s_and(*([got >= t for t in terms] + [core.s_or(*[core.sbool(core.sc_eq(got, t)) for t in terms])])), info)
    return Unit('pspace-weighting/%s/%s/p=%s' % (kind, field, exponent), run, funcs=[PSPACE + ('ProductSpaceArrayWeighting' if kind == 'array' else 'ProductSpaceConstWeighting') + '.' + m for m in ('inner', 'norm')],
                config={'weighting': kind, 'field': field, 'exponent': exponent, 'components': k})


def unit_canary():
    """must-fail: inner product claimed to conjugate the FIRST argument"""
    def run(ctx):
        I = ctx.I
        f = I.get_func(NPT + '_inner_default')

        def path(st):
            sb = setup(I, st, 'complex128')
            x, y = sb.element('x'), sb.element('y')
            fr = ip.Frame(st)
            r = I.call(f, [x, y], {}, fr)
            wrong = sum_of(st, fr, core.vmul(VPw('conj', (VVar('x', 'complex'),)), VVar('y', 'complex')))
            return ('ok', (r, wrong))
        for st, (status, (r, wrong)) in ctx.explore(path):
            ctx.prove(st, 'canary', core.sc_eq(r, wrong), {})
    return Unit('canary/conjugate-first-argument', run, kind='canary', expect='refuted')


def units(tier, seed):
    us = []
    for dt, field in CFG:
        us.append(unit_inner_default(dt, field))
        us.append(unit_norms(dt, field))
    for dt, field in CFG[:2]:
        for kind in ('const', 'array'):
            for p in (2.0, 1.0, float('inf'), 3.0):
                us.append(unit_weighting(kind, dt, field, p))
    for ndim in (1, 2):
        for p in (1.0, 2.0):
            us.append(unit_boundary(ndim, p))
        for meth in ('_inner', '_norm', '_dist'):
            us.append(unit_discr_methods(meth, ndim))
    for ndim in (1, 2):
        for exponent, weighted in ((2.0, True), (1.0, True), (float('inf'), True), (2.0, False)):
            us.append(unit_discr_flag(ndim, exponent, weighted))
    for kind in ('array', 'const'):
        for field in ('real', 'complex'):
            for p in (2.0, 1.0, float('inf')):
                us.append(unit_pspace_weighting(kind, field, p))
    us.append(unit_pspace_weighting('array', 'complex', 2.0, k=3))
    for kind in ('array', 'const'):
        for p in (1.0, float('inf')):
            us.append(unit_pspace_weighting(kind, 'int', p))
    us.append(unit_canary())
    return us


def replay(ob):
    from contracts import replay_c02
    return replay_c02.replay(ob)
