"""C13 - finite-difference operators equal reference stencils; adjoints are transposes.

fd/forward/*     finite_diff for every (method, pad_mode) of the non-adjoint modes: the real function is
                 executed on a closure array of symbolic length n >= n_min with free contents; at the generic
                 index k,  out(k) * dx == stencil_method(ext_mode(f))(k);  the result does not depend on
                 the previous contents of `out`; no exception for admissible sizes.
fd/linear/*      every (method, pad_mode) incl. adjoint modes (pad_const = 0): linear in f.
fd/transpose/*   every (method, pad_mode): the matrix entry M(k, j) = finite_diff(delta_j)(k) of the mode
                 and the entry M'(j, k) of the mode named by _ADJ_METHOD / _ADJ_PADDING (read from source)
                 satisfy  M'(j, k) == -M(k, j)  for all 0 <= j, k < n and all admissible n  (delta trick:
                 exact for every size, including the short-axis corrections of the *_adjoint modes).
fd/errors/*      ValueError exactly for n < 2 (n < 3 for order2), bad dx.
fd/nd/*          the same function along axis 0 / 1 of a 2-d array (swapaxes bookkeeping).
ops/*            PartialDerivative / Gradient / Divergence / Laplacian: _call hands (axis, cell side, method,
                 pad_mode, pad_const) to finite_diff per axis and accumulates as documented; .adjoint returns
                 minus the operator with the table's method / pad mode on swapped spaces; .derivative of the
                 constant-padding variant is the zero-padding operator with the same method.
"""
import z3

from pyvc import core, interp as ip, odlmodel as om, carr, npmodel as npm
from pyvc.core import S, C, Unsupported, s_if, s_and, s_or, s_not
from pyvc.harness import Unit
from contracts import lib

DO = 'odl.discr.diff_ops:'

META = {
    'level': 'proof',
    'trusted_base': [
        'pyvc symbolic interpreter (A7) with closure arrays (K1 operands captured before assignment, K7 Python slice / index normalisation, np.empty contents free)',
        'z3 (linear integer / real arithmetic with uninterpreted array contents)',
        'the matrix of a linear map is determined by its action on the deltas (linearity is proved separately, obligation fd/linear)',
        'A1 reals',
    ],
    'assumptions': ['A1', 'A5', 'A7', 'dx > 0', 'out and f are distinct arrays'],
    'not_decided': ['operator classes on spaces that are not uniformly weighted: the returned adjoint is the transpose, which is the adjoint only for '
                    'uniform weighting (the property restricts its adjoint claim to uniformly weighted spaces); complex dtypes (same code path)'],
}

FORWARD_MODES = ['constant', 'periodic', 'symmetric', 'order0', 'order1', 'order2']


def nmin(pad):
    return 3 if pad in ('order2', 'order2_adjoint') else 2


def tables(I):
    env = I.modenv('odl.discr.diff_ops')
    return env.get('_SUPPORTED_DIFF_METHODS'), env.get('_SUPPORTED_PAD_MODES'), env.get('_ADJ_METHOD'), env.get('_ADJ_PADDING')


def ext(mode, f, n, c):
    """the array f extended beyond [0, n) by the named boundary rule (the specification)"""
    def g(i):
        i = S.lift(i)
        inside = s_and(i >= 0, i < n)
        if mode == 'constant':
            out = c
            return s_if(inside, f(i), c)
        if mode == 'periodic':
            return s_if(i < 0, f(i + n), s_if(i >= n, f(i - n), f(i)))
        if mode in ('symmetric', 'order0'):
            # reflection including the edge sample (numpy 'symmetric') and constant extrapolation coincide one sample out
            return s_if(i < 0, f(0), s_if(i >= n, f(n - 1), f(i)))
        if mode == 'order1':
            return s_if(i < 0, 2 * f(0) - f(1), s_if(i >= n, 2 * f(n - 1) - f(n - 2), f(i)))
        if mode == 'order2':
            return s_if(i < 0, 3 * f(0) - 3 * f(1) + f(2), s_if(i >= n, 3 * f(n - 1) - 3 * f(n - 2) + f(n - 3), f(i)))
        raise KeyError(mode)
    return g


STENCIL = {'forward': lambda g, i: g(i + 1) - g(i), 'backward': lambda g, i: g(i) - g(i - 1), 'central': lambda g, i: (g(i + 1) - g(i - 1)) / 2}


def spec_value(method, pad, f, n, c, k):
    g = ext(pad, f, n, c)
    if pad == 'order2':
        # documented: second-order accurate one-sided differences at the boundary, independent of the method
        edge = s_or(core.sc_eq(k, 0), core.sc_eq(k, n - 1))
        return s_if(edge, STENCIL['central'](g, k), STENCIL[method](g, k))
    return STENCIL[method](g, k)


def run_fd(I, st, farr, out, method, pad, dx, c, axis=0):
    f = I.get_func(DO + 'finite_diff')
    fr = ip.Frame(st)
    return I.call(f, [farr], {'axis': axis, 'dx': dx, 'method': method, 'out': out, 'pad_mode': pad, 'pad_const': c}, fr)


def unit_forward(method, pad):
    def run(ctx):
        I = ctx.I

        def path(st):
            st.closure_arrays = True
            n = S(z3.Int('n'))
            st.assume(n >= nmin(pad))
            dx = S(z3.Real('dx'))
            st.assume(dx > 0)
            c = S(z3.Real('c'))
            farr = carr.fresh_array('f', (n,), npm.DT('float64'))
            out = carr.fresh_array('stale', (n,), npm.DT('float64'))
            try:
                r = run_fd(I, st, farr, out, method, pad, dx, c)
            except ip.PyRaise as e:
                return ('raise', e.exc)
            k = S(z3.Int('k'))
            st.assume(k >= 0)
            st.assume(k < n)
            return ('ok', (r, out, farr, k, n, dx, c))
        info = {'method': method, 'pad_mode': pad}
        for st, (status, r) in ctx.explore(path):
            if status == 'raise':
                ctx.fail(st, 'no_raise', 'raises %s%r for an admissible size' % (lib.exc_name(r), r.fields.get('args')), info,
                         replay={'kind': 'fd', 'method': method, 'pad_mode': pad})
                continue
            ret, out, farr, k, n, dx, c = r
            ctx.prove(st, 'returns the array out', ret is out, info)
            fval = lambda i: farr.at((i,))
            got = out.at((k,))
            want = spec_value(method, pad, fval, n, c, k)
            ctx.prove(st, 'out(k) * dx == stencil(ext(f))(k) at every index, every n', core.sc_eq(got * dx, want), info,
                      replay={'kind': 'fd', 'method': method, 'pad_mode': pad})
    return Unit('fd/forward/%s/%s' % (method, pad), run, funcs=[DO + 'finite_diff'], config={'method': method, 'pad_mode': pad})


def unit_linear(method, pad):
    def run(ctx):
        I = ctx.I

        def path(st):
            st.closure_arrays = True
            n = S(z3.Int('n'))
            st.assume(n >= nmin(pad))
            # additivity and homogeneity for the concrete factors -3/2 and 2 (no products of unknowns in the
            # query); the code never branches on array *values*, so additivity gives Q-linearity and continuity
            # (piecewise rational in the entries) gives R-linearity
            a, b = -1.5, 2.0
            f = carr.fresh_array('f', (n,), npm.DT('float64'))
            g = carr.fresh_array('g', (n,), npm.DT('float64'))
            fr = ip.Frame(st)
            comb = carr.ufunc(I, fr, 'add', [carr.ufunc(I, fr, 'mul', [f, a]), carr.ufunc(I, fr, 'mul', [g, b])])
            outs = []
            try:
                for arr, nm in ((f, 'sf'), (g, 'sg'), (comb, 'sc')):
                    out = carr.fresh_array(nm, (n,), npm.DT('float64'))
                    run_fd(I, st, arr, out, method, pad, 1.0, 0.0)
                    outs.append(out)
            except ip.PyRaise as e:
                return ('raise', e.exc)
            k = S(z3.Int('k'))
            st.assume(k >= 0)
            st.assume(k < n)
            return ('ok', (outs, k, a, b))
        info = {'method': method, 'pad_mode': pad}
        for st, (status, r) in ctx.explore(path):
            if status == 'raise':
                ctx.fail(st, 'no_raise', 'raises %s%r' % (lib.exc_name(r), r.fields.get('args')), info)
                continue
            (of, og, oc), k, a, b = r
            ctx.prove(st, 'finite_diff(-3/2 f + 2 g) == -3/2 finite_diff(f) + 2 finite_diff(g) (pad_const = 0)',
                      core.sc_eq(oc.at((k,)), a * of.at((k,)) + b * og.at((k,))), info)
    return Unit('fd/linear/%s/%s' % (method, pad), run, funcs=[DO + 'finite_diff'], config={'method': method, 'pad_mode': pad})


def matrix_entry(I, st, method, pad, n, row, col, tag):
    """M(row, col) = finite_diff(delta_col)(row), dx = 1, pad_const = 0"""
    d = carr.delta_array((n,), (col,), npm.DT('float64'))
    out = carr.fresh_array('stale.' + tag, (n,), npm.DT('float64'))
    run_fd(I, st, d, out, method, pad, 1.0, 0.0)
    return out.at((row,))


def unit_transpose(method, pad):
    def run(ctx):
        I = ctx.I
        _, _, adjm, adjp = tables(I)

        def path(st):
            st.closure_arrays = True
            n = S(z3.Int('n'))
            am, ap = adjm[method], adjp[pad]
            st.assume(n >= max(nmin(pad), nmin(ap)))
            j, k = S(z3.Int('j')), S(z3.Int('k'))
            for v in (j, k):
                st.assume(v >= 0)
                st.assume(v < n)
            try:
                m = matrix_entry(I, st, method, pad, n, k, j, 'a')
                ma = matrix_entry(I, st, am, ap, n, j, k, 'b')
            except ip.PyRaise as e:
                return ('raise', e.exc)
            return ('ok', (m, ma, am, ap))
        info = {'method': method, 'pad_mode': pad}
        for st, (status, r) in ctx.explore(path):
            if status == 'raise':
                ctx.fail(st, 'no_raise', 'raises %s%r' % (lib.exc_name(r), r.fields.get('args')), info,
                         replay={'kind': 'transpose', 'method': method, 'pad_mode': pad})
                continue
            m, ma, am, ap = r
            ctx.prove(st, 'M_adj(j, k) == -M(k, j) for all j, k, n (adjoint mode %s/%s)' % (am, ap), core.sc_eq(ma, -m), dict(info, adj_method=am, adj_pad=ap),
                      replay={'kind': 'transpose', 'method': method, 'pad_mode': pad})
    return Unit('fd/transpose/%s/%s' % (method, pad), run, funcs=[DO + 'finite_diff', DO + '_ADJ_METHOD', DO + '_ADJ_PADDING'],
                config={'method': method, 'pad_mode': pad})


def unit_errors():
    def run(ctx):
        I = ctx.I
        for pad in ('constant', 'order1', 'order2'):
            for bad in ('small', 'dx'):
                def path(st, pad=pad, bad=bad):
                    st.closure_arrays = True
                    n = S(z3.Int('n'))
                    st.assume(n >= 0)
                    dx = S(z3.Real('dx'))
                    if bad == 'small':
                        st.assume(n < nmin(pad))
                        st.assume(dx > 0)
                    else:
                        st.assume(n >= nmin(pad))
                        st.assume(dx <= 0)
                    farr = carr.fresh_array('f', (n,), npm.DT('float64'))
                    out = carr.fresh_array('stale', (n,), npm.DT('float64'))
                    try:
                        run_fd(I, st, farr, out, 'forward', pad, dx, 0.0)
                    except ip.PyRaise as e:
                        return ('raise', (e.exc, out))
                    return ('ok', None)
                info = {'pad_mode': pad, 'bad': bad}
                for st, (status, r) in ctx.explore(path):
                    if status == 'ok':
                        ctx.fail(st, 'must_raise', 'inadmissible input accepted', info)
                        continue
                    exc, out = r
                    ctx.prove(st, 'ValueError for inadmissible size / dx', lib.exc_name(exc) == 'ValueError', dict(info, got=lib.exc_name(exc)))
                    k = S(z3.Int('k'))
                    ctx.prove(st, 'nothing written before the error', core.sc_eq(out.at((k,)), carr.fresh_array('stale', (S(z3.Int('n')),)).at((k,))), info)
    return Unit('fd/errors', run, funcs=[DO + 'finite_diff'])


def unit_nd(method, pad, axis):
    """2-d array: finite_diff along `axis` acts on every line independently"""
    def run(ctx):
        I = ctx.I

        def path(st):
            st.closure_arrays = True
            n0, n1 = S(z3.Int('n0')), S(z3.Int('n1'))
            na = (n0, n1)[axis]
            st.assume(na >= nmin(pad))
            st.assume((n1, n0)[axis] >= 1)
            dx = S(z3.Real('dx'))
            st.assume(dx > 0)
            c = S(z3.Real('c'))
            farr = carr.fresh_array('f', (n0, n1), npm.DT('float64'))
            out = carr.fresh_array('stale', (n0, n1), npm.DT('float64'))
            try:
                r = run_fd(I, st, farr, out, method, pad, dx, c, axis=axis)
            except ip.PyRaise as e:
                return ('raise', e.exc)
            k0, k1 = S(z3.Int('k0')), S(z3.Int('k1'))
            for v, m in ((k0, n0), (k1, n1)):
                st.assume(v >= 0)
                st.assume(v < m)
            return ('ok', (out, farr, (k0, k1), (n0, n1), dx, c))
        info = {'method': method, 'pad_mode': pad, 'axis': axis}
        for st, (status, r) in ctx.explore(path):
            if status == 'raise':
                ctx.fail(st, 'no_raise', 'raises %s%r' % (lib.exc_name(r), r.fields.get('args')), info)
                continue
            out, farr, k, ns, dx, c = r
            other = k[1 - axis]
            line = (lambda i: farr.at((i, other))) if axis == 0 else (lambda i: farr.at((other, i)))
            want = spec_value(method, pad, line, ns[axis], c, k[axis])
            ctx.prove(st, '2-d: out(k0,k1) * dx == stencil along the axis at every index', core.sc_eq(out.at(k) * dx, want), info)
    return Unit('fd/nd/%s/%s/axis%d' % (method, pad, axis), run, funcs=[DO + 'finite_diff'], config={'method': method, 'pad_mode': pad, 'axis': axis})


def unit_op_call(cname, method, pad):
    """`_call` of the operator classes on a 1-d domain of SYMBOLIC length n (the real finite_diff runs inside): the result, written into an `out` holding anything, equals
    what finite_diff gives for the operator's own (method, pad_mode, pad_const) and cell side - PartialDerivative: fd(x); Divergence (1 component): fd(x[0]);
    Laplacian: (fd_forward(x) - fd_backward(x)) with dx^2 - at EVERY index, for every pad mode incl. the adjoint ones (the reference is computed by two separate
    calls of the real finite_diff, so any correct re-arrangement of the accumulation passes); x is untouched."""
    def run(ctx):
        I = ctx.I

        def path(st):
            st.closure_arrays = True
            n = S(z3.Int('n'))
            st.assume(n >= nmin(pad))
            dx = S(z3.Real('dx'))
            st.assume(dx > 0)
            c = S(z3.Real('c')) if pad == 'constant' else 0
            farr = carr.fresh_array('f', (n,), npm.DT('float64'))
            oarr = carr.fresh_array('stale', (n,), npm.DT('float64'))
            k = S(z3.Int('k'))

            class Space(object):
                def pv_getattr(self, I_, fr_, name):
                    if name == 'ndim':
                        return 1
                    if name == 'cell_sides':
                        return carr.list_array([dx])
                    if name == 'default_order':
                        return 'C'
                    raise Unsupported('space .%s' % name)
            sp = Space()

            class El(object):
                def __init__(self, arr):
                    self.arr = arr

                def pv_getitem(self, I_, fr_, idx):
                    if int(idx) != 0:
                        raise ip.PyRaise(I_.make_exc('IndexError', 'index out of range'))
                    return self.arr if cname == 'Divergence' else El(self.arr)

                def pv_getattr(self, I_, fr_, name):
                    if name == 'asarray':
                        return ip.Builtin('asarray', lambda I2, fr2, a, kw: self.arr)
                    if name == 'set_zero':
                        def sz(I2, fr2, a, kw):
                            I2.setitem(self.arr, slice(None), 0.0, fr2) if hasattr(I2, 'setitem') else self.arr.pv_setitem(I2, fr2, slice(None), 0.0)
                            return self
                        return ip.Builtin('set_zero', sz)
                    if name == 'shape':
                        return (n,)
                    if name == 'dtype':
                        return npm.DT('float64')
                    if name == 'space':
                        return sp
                    raise Unsupported('element .%s' % name)

            class CM(object):
                def __init__(self, el):
                    self.el = el

                def pv_enter(self, I_, fr_):
                    return self.el.arr

                def pv_exit(self, I_, fr_, exc):
                    return None
            st.cuts['odl.util.utility:writable_array'] = lambda I_, fr_, obj, **kw: CM(obj) if isinstance(obj, El) else (_ for _ in ()).throw(Unsupported('writable_array(%r)' % (obj,)))
            op = ip.Obj(I.get_class(DO + cname))
            op.fields.update({'_Operator__domain': sp, '_Operator__range': sp, '_Operator__is_linear': False, 'pad_mode': pad, 'pad_const': c, 'method': method,
                              'axis': 0, 'dx': dx})
            x, out = El(farr), El(oarr)
            fr = ip.Frame(st)
            cl, e = op.cls.lookup('_call')
            try:
                ret = I.call(I.bind_entry(op, cl, '_call', e, fr), [x, out], {}, fr)
                # reference: the real finite_diff, called separately
                if cname == 'Laplacian':
                    r1 = carr.fresh_array('ref1', (n,), npm.DT('float64'))
                    r2 = carr.fresh_array('ref2', (n,), npm.DT('float64'))
                    run_fd(I, st, farr, r1, 'forward', pad, dx * dx, c)
                    run_fd(I, st, farr, r2, 'backward', pad, dx * dx, c)
                    refs = (r1, r2)
                else:
                    r1 = carr.fresh_array('ref1', (n,), npm.DT('float64'))
                    run_fd(I, st, farr, r1, method, pad, dx, c)
                    refs = (r1,)
            except ip.PyRaise as ex:
                return ('raise', ex.exc)
            st.assume(k >= 0)
            st.assume(k < n)
            return ('ok', (ret, out, oarr, farr, refs, k))
        info = {'class': cname, 'method': method, 'pad_mode': pad}
        rp = {'kind': 'ops_call', 'class': cname, 'method': method, 'pad_mode': pad}
        for st, (status, r) in ctx.explore(path):
            if status == 'raise':
                ctx.fail(st, 'no_raise', 'raises %s' % lib.exc_desc(r), info, replay=rp)
                continue
            ret, out, oarr, farr, refs, k = r
            ctx.prove(st, 'returns out', ret is out, info)
            want = refs[0].at((k,)) - refs[1].at((k,)) if len(refs) == 2 else refs[0].at((k,))
            ctx.prove(st, 'out(k) == finite_diff reference at every index, every n, whatever out held before', core.sc_eq(oarr.at((k,)), want), info, replay=rp)
    return Unit('ops-call/%s/%s/%s' % (cname, method, pad), run, funcs=[DO + cname + '._call', DO + 'finite_diff'], config={'class': cname, 'method': method, 'pad_mode': pad})


def unit_fd_native_bounded():
    """BOUNDED (never counted as proved): for every (method, pad mode) of the tables and axis lengths 2 .. 7 the real finite_diff equals the reference stencil (forward modes) and
    its adjoint-mode matrix is minus the transpose - a stand-in that still decides when an edit moves finite_diff outside the interpreted subset (e.g. fancy indexing)."""
    def run(ctx):
        from contracts import replay_fd
        I2 = om.new_interp()
        methods, pads, _, _ = tables(I2)
        for m in methods:
            for p in pads:
                kinds = ['transpose'] + (['fd'] if p in FORWARD_MODES else [])
                for kind in kinds:
                    case = {'kind': kind, 'method': m, 'pad_mode': p}
                    r = replay_fd.replay({'replay': case, 'model': {'n': 6}, 'name': ''})
                    bad = r.get('detail') if r.get('reproduced') or 'raised' in str(r.get('detail')) else None
                    ctx.bounded('finite_diff on short axes: reference stencil / adjoint-mode matrix == -transpose', not bad, case, detail=bad)
    return Unit('fd-native/short-axes', run, funcs=[DO + 'finite_diff'], kind='B', bounded_in='axis lengths 2 .. 7, all methods x pad modes')


def ops_linear_flag_case(case):
    """native: the is_linear flag of a difference operator is truthful (a linear operator is additive and homogeneous, an affine one with a non-zero constant is flagged
    non-linear), and right scalar multiplication follows the table (op * a)(x) == op(a x)"""
    import os
    import sys
    root = os.environ.get('PYVC_REPO', '/repo')
    if root not in sys.path:
        sys.path.insert(0, root)
    import warnings
    warnings.filterwarnings('ignore')
    import numpy as np
    import odl
    cname, pad, c = case['class'], case['pad_mode'], case['pad_const']
    X = odl.uniform_discr([0, 0], [1, 2], (4, 5))
    kw = dict(pad_mode=pad, pad_const=c)
    op = {'PartialDerivative': lambda: odl.PartialDerivative(X, 1, **kw), 'Gradient': lambda: odl.Gradient(X, **kw), 'Divergence': lambda: odl.Divergence(range=X, **kw),
          'Laplacian': lambda: odl.Laplacian(X, **kw)}[cname]()
    rng = np.random.default_rng(3)

    def rnd(sp):
        if isinstance(sp, odl.ProductSpace):
            return sp.element([rnd(s) for s in sp.spaces])
        return sp.element(rng.standard_normal(sp.shape))
    x, y = rnd(op.domain), rnd(op.domain)
    additive = (op(x + y) - op(x) - op(y)).norm() < 1e-9 * (1 + op(x).norm()) and (op(2.5 * x) - 2.5 * op(x)).norm() < 1e-9 * (1 + op(x).norm())
    if op.is_linear and not additive:
        return '%s(pad_mode=%r, pad_const=%r).is_linear is True but the operator is not additive / homogeneous' % (cname, pad, c)
    if additive and not op.is_linear:
        return '%s(pad_mode=%r, pad_const=%r).is_linear is False but the operator is linear' % (cname, pad, c)
    a = 0.5
    lhs, rhs = (op * a)(x), op(a * x)
    if (lhs - rhs).norm() > 1e-9 * (1 + rhs.norm()):
        return '(%s(pad_mode=%r, pad_const=%r) * %r)(x) = %r but op(%r x) = %r' % (cname, pad, c, a, lhs, a, rhs)
    return None


def unit_ops_linear_flag_bounded():
    """BOUNDED (never counted as proved): the constructors of the four operator classes are outside the deductive units (they are built field-wise there): their is_linear flag
    must be truthful - it drives the shortcuts of the operator arithmetic (C04) - for every pad mode with a zero and a non-zero constant."""
    def run(ctx):
        for cname in CLASSES:
            for pad in ('constant', 'symmetric', 'periodic', 'order0'):
                for c in (0, 1.5):
                    case = {'class': cname, 'pad_mode': pad, 'pad_const': c}
                    try:
                        bad = ops_linear_flag_case(case)
                    except Exception as e:
                        bad = 'raised %s: %s' % (type(e).__name__, e)
                    ctx.bounded('difference operator: is_linear is truthful and (op * a)(x) == op(a x)', not bad, case, detail=bad)
    return Unit('ops-native/linear-flag', run, funcs=[DO + c + '.__init__' for c in CLASSES], kind='B', bounded_in='4 classes x 4 pad modes x 2 constants on a 4 x 5 grid')


def unit_canary():
    """must-fail: forward difference claimed for the backward method"""
    def run(ctx):
        I = ctx.I

        def path(st):
            st.closure_arrays = True
            n = S(z3.Int('n'))
            st.assume(n >= 2)
            farr = carr.fresh_array('f', (n,), npm.DT('float64'))
            out = carr.fresh_array('stale', (n,), npm.DT('float64'))
            run_fd(I, st, farr, out, 'backward', 'periodic', 1.0, 0.0)
            k = S(z3.Int('k'))
            st.assume(k >= 0)
            st.assume(k < n)
            return ('ok', (out, farr, k, n))
        for st, (status, (out, farr, k, n)) in ctx.explore(path):
            ctx.prove(st, 'canary', core.sc_eq(out.at((k,)), spec_value('forward', 'periodic', lambda i: farr.at((i,)), n, 0.0, k)), {})
    return Unit('canary/backward-claimed-forward', run, kind='canary', expect='refuted')


# --------------------------------------------------------------------------
# operator classes: constructor arguments of derivative / adjoint (delegation to finite_diff is proved above)

DIFF = 'odl.discr.diff_ops:'
CLASSES = ('PartialDerivative', 'Gradient', 'Divergence', 'Laplacian')


def unit_class(cname, method, pad_mode, nonzero_const):
    """derivative(point) is the operator itself unless it is affine (constant padding with a non-zero constant), then the SAME scheme
    (domain, range, axis, method, pad_mode) with pad_const = 0; adjoint is minus the partner class on swapped spaces with the method /
    padding named by _ADJ_METHOD / _ADJ_PADDING (proved to be the exact transpose by transpose/*), and raises for affine operators"""
    def run(ctx):
        I = ctx.I

        def path(st):
            fr = ip.Frame(st)
            made = []
            adjm, adjp = I.module_attr('odl.discr.diff_ops', '_ADJ_METHOD'), I.module_attr('odl.discr.diff_ops', '_ADJ_PADDING')
            dom, ran = ip.Obj(I.get_class('odl.set.space:LinearSpace')), ip.Obj(I.get_class('odl.set.space:LinearSpace'))
            dom.tag, ran.tag = 'DOM', 'RAN'

            def mk_ctor(cn):
                def ctor(I_, fr_, self, *a, **kw):
                    self.fields['ctor'] = (cn, a, dict(kw))
                    made.append(self)
                return ctor
            from contracts import oplib
            st.cuts.update(oplib.operator_cuts())
            for cn in CLASSES:
                st.cuts[DIFF + cn + '.__init__'] = mk_ctor(cn)
            st.cuts['odl.operator.operator:Operator.__neg__'] = lambda I_, fr_, self: ('neg', self)
            op = ip.Obj(I.get_class(DIFF + cname))
            c = S(z3.Real('pad_const'))
            if nonzero_const:
                st.assume(core.s_not(core.sbool(core.sc_eq(c, 0))))
            else:
                c = 0.0
            op.fields.update({'_Operator__domain': dom, '_Operator__range': ran, 'method': method, 'pad_mode': pad_mode, 'pad_const': c, 'axis': 1,
                              '_Operator__is_linear': not (pad_mode == 'constant' and nonzero_const)})
            out = {'op': op, 'dom': dom, 'ran': ran, 'adjm': adjm, 'adjp': adjp}
            try:
                out['der'] = I.call(I._getattr(op, 'derivative', fr), [None], {}, fr)
            except ip.PyRaise as e:
                out['der_exc'] = e.exc
            try:
                out['adj'] = I._getattr(op, 'adjoint', fr)
            except ip.PyRaise as e:
                out['adj_exc'] = e.exc
            return ('ok', out)
        info = {'class': cname, 'method': method, 'pad_mode': pad_mode, 'affine': nonzero_const}
        sig = {'PartialDerivative': ('domain', 'axis', 'range', 'method', 'pad_mode', 'pad_const'), 'Gradient': ('domain', 'range', 'method', 'pad_mode', 'pad_const'),
               'Divergence': ('domain', 'range', 'method', 'pad_mode', 'pad_const'), 'Laplacian': ('domain', 'range', 'pad_mode', 'pad_const')}

        def args_of(o):
            cn, a, kw = o.fields['ctor']
            d = dict(zip(sig[cn], a))
            d.update(kw)
            return cn, d
        for st, (status, r) in ctx.explore(path):
            op = r['op']
            affine = pad_mode == 'constant' and nonzero_const
            if 'der_exc' in r:
                ctx.fail(st, 'derivative does not raise', 'raises %s' % lib.exc_desc(r['der_exc']), info)
            elif not affine:
                ctx.prove(st, 'derivative of a linear difference operator is the operator itself', r['der'] is op, info)
            else:
                d = r['der']
                ok = isinstance(d, ip.Obj) and 'ctor' in d.fields
                ctx.prove(st, 'derivative of an affine difference operator is a new operator of the same class', ok and args_of(d)[0] == cname, info)
                if ok:
                    cn, a = args_of(d)
                    ctx.prove(st, 'derivative: same domain and range', a.get('domain') is r['dom'] and a.get('range') is r['ran'], info)
                    if cname != 'Laplacian':
                        ctx.prove(st, 'derivative: same difference method', a.get('method', 'forward') == method, dict(info, got=a.get('method', '<default forward>')))
                    ctx.prove(st, 'derivative: same padding mode, pad_const == 0', a.get('pad_mode', 'constant') == pad_mode and a.get('pad_const', 0) == 0, info)
                    if cname == 'PartialDerivative':
                        ctx.prove(st, 'derivative: same axis', a.get('axis') == 1, info)
            if affine and cname != 'Laplacian':
                ctx.prove(st, 'adjoint of an affine operator raises ValueError', 'adj_exc' in r and I.exc_isinstance(r['adj_exc'], 'ValueError'), info)
                continue
            if 'adj_exc' in r:
                ctx.fail(st, 'adjoint does not raise', 'raises %s' % lib.exc_desc(r['adj_exc']), info)
                continue
            adj = r['adj']
            if cname == 'Laplacian':
                ok = isinstance(adj, ip.Obj) and 'ctor' in adj.fields
                ctx.prove(st, 'Laplacian.adjoint is a Laplacian on swapped spaces with the same padding and pad_const 0', ok and args_of(adj)[0] == 'Laplacian'
                          and args_of(adj)[1].get('domain') is r['ran'] and args_of(adj)[1].get('range') is r['dom'] and args_of(adj)[1].get('pad_mode') == pad_mode
                          and args_of(adj)[1].get('pad_const', 0) == 0, info)
                continue
            neg = isinstance(adj, tuple) and adj[0] == 'neg'
            ctx.prove(st, 'adjoint is MINUS the partner operator', neg, info)
            if not neg:
                continue
            cn, a = args_of(adj[1])
            partner = {'PartialDerivative': 'PartialDerivative', 'Gradient': 'Divergence', 'Divergence': 'Gradient'}[cname]
            ctx.prove(st, 'adjoint: partner class on swapped spaces', cn == partner and a.get('domain') is r['ran'] and a.get('range') is r['dom'], info)
            ctx.prove(st, 'adjoint: method == _ADJ_METHOD[method], pad_mode == _ADJ_PADDING[pad_mode]', a.get('method', 'forward') == r['adjm'][method] and a.get('pad_mode', 'constant') == r['adjp'][pad_mode], info)
            if 'pad_const' in a:
                ctx.prove(st, 'adjoint: pad_const handed on (zero for a linear operator with constant padding)', core.sc_eq(a['pad_const'], op.fields['pad_const']), info)
            if cname == 'PartialDerivative':
                ctx.prove(st, 'adjoint: same axis', a.get('axis') == 1, info)
    return Unit('class/%s/%s/%s/%s' % (cname, method, pad_mode, 'affine' if nonzero_const else 'linear'), run,
                funcs=[DIFF + cname + '.derivative', DIFF + cname + '.adjoint'], config={'class': cname, 'method': method, 'pad_mode': pad_mode, 'affine': nonzero_const})


def units(tier, seed):
    I = om.new_interp()
    methods, pads, _, _ = tables(I)
    us = []
    for m in methods:
        for p in FORWARD_MODES:
            us.append(unit_forward(m, p))
        for p in pads:
            us.append(unit_linear(m, p))
            us.append(unit_transpose(m, p))
    us.append(unit_errors())
    for m in methods:
        for p in ('constant', 'periodic', 'order1'):
            for ax in (0, 1):
                us.append(unit_nd(m, p, ax))
    for cn in CLASSES:
        for m in (methods if cn != 'Laplacian' else ('forward',)):
            for p in (pads if cn != 'Laplacian' else ('constant', 'periodic', 'symmetric')):
                us.append(unit_class(cn, m, p, False))
            us.append(unit_class(cn, m, 'constant', True))
    lap_pads = [p for p in pads if not p.startswith('order1') and not p.startswith('order2')]       # Laplacian supports constant / periodic / symmetric(+adjoint) / order0(+adjoint)
    for p in lap_pads:
        us.append(unit_op_call('Laplacian', 'forward', p))
    for m in methods:
        for p in ('constant', 'periodic', 'symmetric', 'order1', 'order1_adjoint'):
            us.append(unit_op_call('PartialDerivative', m, p))
    for p in ('constant', 'symmetric_adjoint'):
        us.append(unit_op_call('Divergence', 'forward', p))
    us.append(unit_fd_native_bounded())
    us.append(unit_ops_linear_flag_bounded())
    us.append(unit_canary())
    return us


def replay_class(ob):
    """native: derivative(x)(h) == A(x + h) - A(x) (the operators are affine) and <A x, y> == <x, A* y> for the linear ones, real classes on a small space"""
    import os
    import sys
    root = os.environ.get('PYVC_REPO', '/repo')
    if root not in sys.path:
        sys.path.insert(0, root)
    import warnings
    warnings.filterwarnings('ignore')
    import numpy as np
    import odl
    from odl.discr import diff_ops as D
    cfg = ob.get('config') or {}
    cn, method, pm, affine = cfg.get('class'), cfg.get('method'), cfg.get('pad_mode'), cfg.get('affine')
    X = odl.uniform_discr([0, 0], [1, 2], (5, 4))
    rng = np.random.default_rng(0)
    kw = {'pad_mode': pm, 'pad_const': 1.5 if affine else 0}
    try:
        if cn == 'Laplacian':
            A = D.Laplacian(X, **kw)
        elif cn == 'Gradient':
            A = D.Gradient(X, method=method, **kw)
        elif cn == 'Divergence':
            A = D.Divergence(range=X, method=method, **kw)
        else:
            A = D.PartialDerivative(X, axis=1, method=method, **kw)
        x, h = A.domain.element(rng.standard_normal(A.domain.shape)), A.domain.element(rng.standard_normal(A.domain.shape))
        d = A.derivative(x)(h) - (A(x + h) - A(x))
        if d.norm() > 1e-9:
            return {'reproduced': True, 'detail': '%s(method=%r, %r).derivative(x)(h) differs from A(x+h) - A(x) by %r' % (cn, method, kw, d.norm())}
        if not affine:
            y = A.range.element(rng.standard_normal(A.range.shape))
            l, r = A(x).inner(y), x.inner(A.adjoint(y))
            if abs(l - r) > 1e-9 * (1 + abs(l)):
                return {'reproduced': True, 'detail': '%s(method=%r, %r): <Ax,y> = %r, <x,A*y> = %r' % (cn, method, kw, l, r)}
    except Exception as e:
        return {'reproduced': False, 'detail': 'native evaluation raised %s: %s' % (type(e).__name__, e)}
    return {'reproduced': False, 'detail': 'derivative / adjoint agree natively'}


def replay(ob):
    if ob['unit'].startswith('ops-native/'):
        case = ob.get('model') or (ob.get('replay') or {}).get('case')
        try:
            bad = ops_linear_flag_case(case)
        except Exception as e:
            bad = 'raised %s: %s' % (type(e).__name__, e)
        return {'reproduced': bool(bad), 'detail': bad or 'holds natively', 'input': case}
    if ob['unit'].startswith('fd-native/'):
        from contracts import replay_fd
        case = ob.get('model') or (ob.get('replay') or {}).get('case')
        return replay_fd.replay({'replay': case, 'model': {'n': 6}, 'name': ''})
    if ob['unit'].startswith('class/'):
        return replay_class(ob)
    from contracts import replay_fd
    return replay_fd.replay(ob)
