"""C15 - sampling and interpolation reproduce the function at the nodes and between them.

interp/find_indices   _Interpolator._find_indices at a generic evaluation point of a generic strictly increasing grid
                      (symbolic length): inside the hull c(k) <= x <= c(k+1), 0 <= ndist <= 1, ndist*(c(k+1)-c(k)) = x - c(k)
interp/nearest/*      _NearestInterpolator and the per-axis interpolator with 'nearest': value of the closer node,
                      right neighbour on ties, ndim 1 and 2
interp/linear/*       per-axis interpolator with 'linear' / mixed: multilinear blend sum_corners prod_ax w_ax f(corner)
                      with w = (1 - t, t); node values reproduced; affine functions reproduced exactly (ndim 1, 2)
sampling/*            BOUNDED (never counted as proved): space.element(f) / point_collocation(out=) against the callable evaluated point by point for every
                      kind of callable x floating dtype x two-use history of the same callable object (contracts/replay_c15.py)
The evaluation points are arbitrarily many (pointwise model over the point index); values are an uninterpreted
function of the index tuple.
"""
import itertools

import z3

from pyvc import core, interp as ip, odlmodel as om, npmodel as npm
from pyvc.core import S, C, V, VVar, VConst, Unsupported, s_if, s_and, s_or, s_not
from pyvc.harness import Unit
from contracts import lib

DU = 'odl.discr.discr_utils:'

META = {
    'level': 'proof',
    'trusted_base': [
        'pyvc symbolic interpreter (A7); pointwise model over the evaluation points (K1), integer-array lookups as functions of the index, boolean-mask assignment (K7), '
        'K6 contract of np.searchsorted on strictly increasing coordinate vectors',
        'z3 (mixed integer / real arithmetic, nonlinear for the blends); A1 reals',
    ],
    'assumptions': ['A1', 'A5', 'A7', 'coordinate vectors strictly increasing with at least 2 nodes per axis', 'evaluation points inside the hull of the grid'],
    'not_decided': ['sampling_function / _make_dual_use_func / vectorize (inspect signatures, partial, try/except around user callables): no deductive contract, only the bounded sampling/* units',
                    'meshgrid input type (broadcast bookkeeping), ndim >= 3, behaviour outside the hull',
                    'point_collocation / DiscretizedSpace.element delegation'],
}


def grid_axis(st, name, n):
    c = npm.Table(name, (n,))
    # strict monotonicity is used through instances only (keeps the queries quantifier free): at the ends here, at the
    # cell found by the binary search in mono_at()
    st.assume(c.value([0]) < c.value([1]))
    st.assume(c.value([n - 2]) < c.value([n - 1]))
    return c


def mono_at(st, c, n, k):
    """instances of the strict monotonicity of c around the cell k"""
    st.assume(S(z3.Implies(z3.And((S.lift(k) >= 0).t, (S.lift(k) <= n - 2).t), (c.value([k]) < c.value([k + 1])).t)))


def setup(I, st, ndim, values_fn=None, where='inside'):
    """interpolation problem with `ndim` axes: coordinate tables, value table, per-point coordinate arrays"""
    st.point_shape = npm.SymShape(S(z3.Int('npoints')))
    ns = [S(z3.Int('n%d' % a)) for a in range(ndim)]
    for n in ns:
        st.assume(n >= 2)
    cvecs = [grid_axis(st, 'c%d' % a, ns[a]) for a in range(ndim)]
    values = npm.Table('f', tuple(ns), fn=values_fn(cvecs) if values_fn else None)
    xs = []
    for a in range(ndim):
        buf = npm.Buf(VVar('x%d' % a, 'real'), npm.DT('float64'), st.point_shape, True, True, name='x%d' % a)
        xs.append(npm.PArr(buf))
        xv = st.lower(VVar('x%d' % a, 'real'))
        if where == 'inside':
            st.assume(s_and(xv >= cvecs[a].value([0]), xv <= cvecs[a].value([ns[a] - 1])))
        elif where == 'below':
            st.assume(xv < cvecs[a].value([0]))                 # left of the first node (e.g. the outer half cell of a cell-centred grid)
        else:
            st.assume(xv > cvecs[a].value([ns[a] - 1]))         # right of the last node
    st.cuts['odl.util.vectorization:out_shape_from_meshgrid'] = lambda I2, fr2, mesh: st.point_shape
    return ns, cvecs, values, xs


def cell_and_t(st, cvecs, ns, a):
    """witness cell k and local coordinate t of the generic point along axis a (from the binary search)"""
    ss = [e for e in st.events if e[0] == 'searchsorted' and e[1] is cvecs[a]]
    ki = ss[0][2]
    k = s_if(ki - 1 < 0, 0, s_if(ki - 1 > ns[a] - 2, ns[a] - 2, ki - 1))
    mono_at(st, cvecs[a], ns[a], k)
    x = st.lower(VVar('x%d' % a, 'real'))
    c = cvecs[a]
    t = (x - c.value([k])) / (c.value([k + 1]) - c.value([k]))
    return k, t, x


def unit_find_indices(vdtype='float64'):
    def run(ctx):
        I = ctx.I

        def path(st):
            ns, cvecs, values, xs = setup(I, st, 1)
            values.dtype = npm.DT(vdtype)
            cls = I.get_class(DU + '_NearestInterpolator')
            fr = ip.Frame(st)
            inst = I.call(cls, [tuple(cvecs), values, 'array'], {}, fr)
            idx, nd = I.call(I._getattr(inst, '_find_indices', fr), [xs], {}, fr)
            return ('ok', (idx[0], nd[0], ns, cvecs))
        for st, (status, (idcs, ndist, ns, cvecs)) in ctx.explore(path):
            low = st.lower
            k = low(idcs.buf.content)
            t = low(ndist.buf.content)
            x = low(VVar('x0', 'real'))
            c, n = cvecs[0], ns[0]
            cell_and_t(st, cvecs, ns, 0)
            ctx.prove(st, 'cell index in range', s_and(k >= 0, k <= n - 2), {})
            ctx.prove(st, 'inside the hull: c(k) <= x <= c(k+1)', s_and(c.value([k]) <= x, x <= c.value([k + 1])), {})
            ctx.prove(st, '0 <= ndist <= 1', s_and(t >= 0, t <= 1), {})
            ctx.prove(st, 'ndist * (c(k+1) - c(k)) == x - c(k)', core.sc_eq(t * (c.value([k + 1]) - c.value([k])), x - c.value([k])), {})
            down = [e for e in st.events if e[0] == 'downcast']
            ctx.prove(st, 'evaluation points are not rounded to a lower precision than given (values dtype %s)' % vdtype, not down, {'events': str(down)})
    return Unit('interp/find_indices/%s' % vdtype, run, funcs=[DU + '_Interpolator._find_indices', DU + '_Interpolator.__init__'])


def run_interp(I, st, ndim, kinds, values_fn=None):
    ns, cvecs, values, xs = setup(I, st, ndim, values_fn)
    fr = ip.Frame(st)
    if kinds == 'nearest-class':
        cls = I.get_class(DU + '_NearestInterpolator')
        inst = I.call(cls, [tuple(cvecs), values, 'array'], {}, fr)
    else:
        cls = I.get_class(DU + '_PerAxisInterpolator')
        inst = I.call(cls, [tuple(cvecs), values, 'array'], {'interp': list(kinds)}, fr)
    idx, nd = I.call(I._getattr(inst, '_find_indices', fr), [xs], {}, fr)
    # contract of _find_indices (proved per axis in interp/find_indices): used here as a lemma
    for a in range(ndim):
        t = st.lower(nd[a].buf.content)
        k = st.lower(idx[a].buf.content)
        st.assume(s_and(t >= 0, t <= 1, k >= 0, k <= ns[a] - 2))
    res = I.call(I._getattr(inst, '_evaluate', fr), [idx, nd], {}, fr)
    return ns, cvecs, values, res


def blend(st, cvecs, ns, values, kinds):
    """multilinear / nearest blend of the surrounding nodes (the specification)"""
    ndim = len(cvecs)
    cells = [cell_and_t(st, cvecs, ns, a) for a in range(ndim)]
    total = S.lift(0.0)
    for corner in itertools.product((0, 1), repeat=ndim):
        w = S.lift(1.0)
        idx = []
        for a, bit in enumerate(corner):
            k, t, x = cells[a]
            if kinds[a] == 'linear':
                wa = t if bit else 1 - t
            else:
                # nearest: the closer node, right neighbour on ties
                wa = s_if(t < 0.5, 0.0 if bit else 1.0, 1.0 if bit else 0.0)
            w = w * wa
            idx.append(k + bit)
        total = total + w * values.value(idx)
    return total, cells


def unit_interp(ndim, kinds):
    label = kinds if isinstance(kinds, str) else '-'.join(kinds)

    def run(ctx):
        I = ctx.I

        def path(st):
            try:
                ns, cvecs, values, res = run_interp(I, st, ndim, kinds)
            except ip.PyRaise as e:
                return ('raise', e.exc)
            return ('ok', (ns, cvecs, values, res))
        info = {'ndim': ndim, 'interp': label}
        for st, (status, r) in ctx.explore(path):
            if status == 'raise':
                ctx.fail(st, 'no_raise', 'raises %s%r' % (lib.exc_name(r), r.fields.get('args')), info)
                continue
            ns, cvecs, values, res = r
            got = st.lower(res.buf.content)
            kk = ['nearest'] * ndim if kinds == 'nearest-class' else list(kinds)
            want, cells = blend(st, cvecs, ns, values, kk)
            ctx.prove(st, 'value == blend of the surrounding nodes (multilinear weights (1-t, t); nearest: closer node, right on ties)', core.sc_eq(got, want), info)
            # node reproduction: a point that is a grid node gets the node value
            j = [S(z3.Int('j%d' % a)) for a in range(ndim)]
            # (strict monotonicity: a node c(j) inside the closed cell [c(k), c(k+1)] is one of its two end nodes)
            at_node = s_and(*[s_and(j[a] >= 0, j[a] < ns[a], core.sc_eq(cells[a][2], cvecs[a].value([j[a]])),
                                    s_or(core.sc_eq(j[a], cells[a][0]), core.sc_eq(j[a], cells[a][0] + 1))) for a in range(ndim)])
            ctx.prove(st, 'node values are reproduced exactly', S(z3.Implies(at_node.t, core.sc_eq(got, values.value(j)).t)), info)
    return Unit('interp/%dd/%s' % (ndim, label), run, funcs=[DU + '_PerAxisInterpolator._evaluate', DU + '_NearestInterpolator._evaluate',
                                                              DU + '_compute_linear_weights_edge', DU + '_compute_nearest_weights_edge',
                                                              DU + '_create_weight_edge_lists'], config={'ndim': ndim, 'interp': label})


def unit_affine(ndim):
    def run(ctx):
        I = ctx.I
        coef = [S(z3.Real('a%d' % a)) for a in range(ndim)]
        b = S(z3.Real('b'))

        def vfn(cvecs):
            return lambda idx: sum((coef[a] * cvecs[a].value([idx[a]]) for a in range(ndim)), b)

        def path(st):
            try:
                ns, cvecs, values, res = run_interp(I, st, ndim, ['linear'] * ndim, values_fn=vfn)
            except ip.PyRaise as e:
                return ('raise', e.exc)
            return ('ok', res)
        info = {'ndim': ndim}
        for st, (status, res) in ctx.explore(path):
            if status == 'raise':
                ctx.fail(st, 'no_raise', 'raises %s' % lib.exc_name(res), info)
                continue
            got = st.lower(res.buf.content)
            x = [st.lower(VVar('x%d' % a, 'real')) for a in range(ndim)]
            want = sum((coef[a] * x[a] for a in range(ndim)), b)
            ctx.prove(st, 'linear interpolation is exact for affine functions anywhere inside the grid', core.sc_eq(got, want), info)
    return Unit('interp/%dd/affine-exact' % ndim, run, funcs=[DU + '_PerAxisInterpolator._evaluate'], config={'ndim': ndim})


def unit_canary():
    """must-fail: nearest neighbour claimed to take the LEFT node on ties"""
    def run(ctx):
        I = ctx.I

        def path(st):
            ns, cvecs, values, res = run_interp(I, st, 1, 'nearest-class')
            return ('ok', (ns, cvecs, values, res))
        for st, (status, (ns, cvecs, values, res)) in ctx.explore(path):
            k, t, x = cell_and_t(st, cvecs, ns, 0)
            wrong = s_if(t <= 0.5, values.value([k]), values.value([k + 1]))
            ctx.prove(st, 'canary', core.sc_eq(st.lower(res.buf.content), wrong), {})
    return Unit('canary/nearest-left-on-ties', run, kind='canary', expect='refuted')


DOPS_ = 'odl.discr.discr_ops:'


def unit_nearest_outside(where, kind):
    """points OUTSIDE the hull of the nodes (left of the first / right of the last node; inside the domain for cell-centred grids): _find_indices clamps the cell
    to the first / last one with a normalised distance < 0 / > 1, and nearest-neighbour interpolation (class and per-axis variant) returns the value of the
    first / last node - the closest one"""
    def run(ctx):
        I = ctx.I
        npm.Table.WRAP_NEGATIVE = True          # edge[0][hi] = -1 addresses the last node

        def path(st):
            ns, cvecs, values, xs = setup(I, st, 1, where=where)
            fr = ip.Frame(st)
            if kind == 'class':
                inst = I.call(I.get_class(DU + '_NearestInterpolator'), [tuple(cvecs), values, 'array'], {}, fr)
            else:
                inst = I.call(I.get_class(DU + '_PerAxisInterpolator'), [tuple(cvecs), values, 'array'], {'interp': ['nearest']}, fr)
            try:
                idx, nd = I.call(I._getattr(inst, '_find_indices', fr), [xs], {}, fr)
                # instances of the monotonicity of the coordinate vector between the position found by the binary search and the two ends
                for e in [e for e in st.events if e[0] == 'searchsorted' and e[1] is cvecs[0]]:
                    ki, c, n = e[2], cvecs[0], ns[0]
                    st.assume(S(z3.Implies(z3.And((S.lift(ki) >= 0).t, (S.lift(ki) <= n - 1).t), (c.value([ki]) <= c.value([n - 1])).t)))
                    st.assume(S(z3.Implies(z3.And((S.lift(ki) >= 1).t, (S.lift(ki) <= n).t), (c.value([0]) <= c.value([ki - 1])).t)))
                k0, t0 = st.lower(idx[0].buf.content), st.lower(nd[0].buf.content)
                res = I.call(I._getattr(inst, '_evaluate', fr), [idx, nd], {}, fr)
            except ip.PyRaise as e:
                return ('raise', e.exc)
            return ('ok', (ns, cvecs, values, k0, t0, res))
        info = {'where': where, 'interpolator': kind}
        for st, (status, r) in ctx.explore(path):
            if status == 'raise':
                ctx.fail(st, 'no_raise', 'raises %s' % lib.exc_desc(r), info)
                continue
            ns, cvecs, values, k0, t0, res = r
            n = ns[0]
            if where == 'below':
                ctx.prove(st, 'left of the first node: first cell, normalised distance < 0', s_and(core.sbool(core.sc_eq(k0, 0)), t0 < 0), info)
                ctx.prove(st, 'left of the first node: nearest interpolation returns the value of the FIRST node', core.sc_eq(st.lower(res.buf.content), values.value([0])), info)
            else:
                ctx.prove(st, 'right of the last node: last cell, normalised distance > 1', s_and(core.sbool(core.sc_eq(k0, n - 2)), t0 > 1), info)
                ctx.prove(st, 'right of the last node: nearest interpolation returns the value of the LAST node', core.sc_eq(st.lower(res.buf.content), values.value([n - 1])), info)
    return Unit('interp/nearest-outside/%s/%s' % (where, kind), run, funcs=[DU + '_Interpolator._find_indices', DU + '_compute_nearest_weights_edge', DU + '_NearestInterpolator._evaluate',
                DU + '_PerAxisInterpolator._evaluate'], config={'where': where, 'interpolator': kind})


def unit_resampling(schemes):
    """Resampling hands its per-axis interpolation schemes on unchanged: the `interp` argument given to per_axis_interpolator by `_call` and to the Resampling built
    by `inverse` / `adjoint`, normalised by the real `_normalize_interp`, is the operator's `interp_byaxis` - for every combination of schemes (mixed ones included);
    the interpolator is built from the input x and the coordinate vectors of the DOMAIN and sampled on the mesh of the RANGE."""
    ndim = len(schemes)

    def run(ctx):
        I = ctx.I

        def path(st):
            fr = ip.Frame(st)
            calls = {}

            class Grid(object):
                def __init__(self, tag):
                    self.tag = tag

                def pv_getattr(self, I_, fr_, name):
                    if name == 'coord_vectors':
                        return ('coord_vectors', self.tag)
                    raise Unsupported('grid.%s' % name)

            class Space(object):
                def __init__(self, tag):
                    self.tag = tag

                def pv_getattr(self, I_, fr_, name):
                    if name == 'grid':
                        return Grid(self.tag)
                    if name == 'meshgrid':
                        return ('meshgrid', self.tag)
                    if name == 'ndim':
                        return ndim
                    raise Unsupported('space.%s' % name)
            dom, ran = Space('domain'), Space('range')
            st.cuts[DOPS_ + 'per_axis_interpolator'] = lambda I_, fr_, x, cv, interp, *a, **k: calls.setdefault('interp', (x, cv, interp)) and ('interpolator',)
            st.cuts[DU + 'per_axis_interpolator'] = st.cuts[DOPS_ + 'per_axis_interpolator']
            st.cuts[DOPS_ + 'point_collocation'] = lambda I_, fr_, f, pts, out=None, **k: calls.setdefault('colloc', (f, pts, out)) and ('sampled',)
            st.cuts[DU + 'point_collocation'] = st.cuts[DOPS_ + 'point_collocation']
            made = []

            class NullCtx(object):
                def pv_enter(self, I_, fr_):
                    return None

                def pv_exit(self, I_, fr_, exc):
                    return None
            st.ext_cuts = dict(getattr(st, 'ext_cuts', None) or {})
            st.ext_cuts['contextlib.nullcontext'] = lambda *a, **k: NullCtx()

            def ctor(I_, fr_, self, *a, **kw):
                self.fields['ctor'] = (a, dict(kw))
                made.append(self)
            st.cuts[DOPS_ + 'Resampling.__init__'] = ctor
            from contracts import oplib
            st.cuts.update(oplib.operator_cuts())
            op = ip.Obj(I.get_class(DOPS_ + 'Resampling'))
            op.fields.update({'_Operator__domain': dom, '_Operator__range': ran, '_Operator__is_linear': True, '_Resampling__interp_byaxis': tuple(schemes)})
            x = ('x',)
            f = I.class_entry_value(op.cls, '_call', op.cls.lookup('_call')[1])
            norm = I.get_func(DU + '_normalize_interp')
            try:
                I.call(f, [op, x], {}, fr)
                inv = I._getattr(op, 'inverse', fr)
                adj = I._getattr(op, 'adjoint', fr)
                n_call = I.call(norm, [calls['interp'][2], ndim], {}, fr) if 'interp' in calls else None
                outs = []
                for o in (inv, adj):
                    a, kw = o.fields['ctor'] if isinstance(o, ip.Obj) and 'ctor' in o.fields else ((), {})
                    args = dict(zip(('domain', 'range', 'interp'), a))
                    args.update(kw)
                    outs.append((args, I.call(norm, [args.get('interp'), ndim], {}, fr) if 'interp' in args else None))
            except ip.PyRaise as e:
                return ('raise', e.exc)
            return ('ok', dict(calls=calls, n_call=n_call, outs=outs, dom=dom, ran=ran, x=x))
        info = {'schemes': list(schemes)}
        for st, (status, r) in ctx.explore(path):
            if status == 'raise':
                ctx.fail(st, 'no_raise', 'raises %s' % lib.exc_desc(r), info)
                continue
            c = r['calls']
            ctx.prove(st, '_call: interpolator of x on the coordinate vectors of the domain', 'interp' in c and c['interp'][0] is r['x'] and c['interp'][1] == ('coord_vectors', 'domain'), info)
            ctx.prove(st, '_call: the schemes handed to per_axis_interpolator are the per-axis schemes of the operator', r['n_call'] is not None and tuple(r['n_call']) == tuple(schemes), dict(info, got=repr(c.get('interp', (None, None, None))[2])))
            ctx.prove(st, '_call: sampled on the mesh of the range', 'colloc' in c and c['colloc'][1] == ('meshgrid', 'range'), info)
            for nm, (args, nrm) in zip(('inverse', 'adjoint'), r['outs']):
                ctx.prove(st, '%s: Resampling in the opposite direction with the same per-axis schemes' % nm,
                          args.get('domain') is r['ran'] and args.get('range') is r['dom'] and nrm is not None and tuple(nrm) == tuple(schemes), dict(info, got=repr(args.get('interp'))))
    return Unit('resampling/%s' % '-'.join(schemes), run, funcs=[DOPS_ + 'Resampling._call', DOPS_ + 'Resampling.interp', DOPS_ + 'Resampling.inverse', DU + '_normalize_interp'], config={'schemes': list(schemes)})


def unit_sampling_bounded(kind, ndim, tier):
    """BOUNDED stand-in (labelled bounded, never counted as proved) - see contracts/replay_c15.py: space.element(f) / point_collocation(..., out=) against the
    callable evaluated point by point, for each kind of callable, each floating dtype, and every two-use history of the same callable object."""
    def run(ctx):
        from contracts import replay_c15
        for cfg in replay_c15.cases(tier):
            if cfg['kind'] != kind or cfg['ndim'] != ndim:
                continue
            try:
                bad, evals = replay_c15.check(cfg)
            except Exception as e:
                bad, evals = 'evaluation raised %s: %s' % (type(e).__name__, e), 0
            ctx.evals += max(evals - 1, 0)
            ctx.bounded('element from a callable holds exactly the callable values at the grid points (each use of the same callable object)', not bad, cfg, detail=bad)
    return Unit('sampling/%s/ndim=%d' % (kind, ndim), run, funcs=[DU + 'sampling_function', DU + 'point_collocation', DU + '_make_dual_use_func',
                'odl.util.vectorization:_NumpyVectorizeWrapper.__call__', 'odl.discr.discr_space:DiscretizedSpace.element'], kind='B',
                config={'kind': kind, 'ndim': ndim}, bounded_in='grids 4 and 4 x 3, dtypes float32/64 complex64/128, histories of at most two uses of one callable')


def replay(ob):
    if ob.get('unit', '').startswith('sampling/') or ob.get('unit', '').startswith('resampling/') or ob.get('unit', '').startswith('interp-native/'):
        from contracts import replay_c15
        return replay_c15.replay(ob)
    return {'reproduced': False, 'detail': 'no native concretisation for this obligation kind'}


def unit_interp_native_bounded():
    """BOUNDED (never counted as proved): node values stored in C order, Fortran order, as transposed and strided views (the deductive units see the values through an index
    function, not a memory layout), 2 and 3 axes, linear / nearest / mixed per-axis schemes at random points between the nodes; Resampling between spaces over the same set,
    also with EQUAL shapes and different node placement, in-place and out-of-place, against the interpolant evaluated at the grid points of the range."""
    def run(ctx):
        from contracts import replay_c15
        for case, bad in replay_c15.interp_native_cases():
            ctx.bounded('interpolation agrees with the reference for this memory layout / pair of spaces', not bad, case, detail=bad)
    return Unit('interp-native/layouts-and-resampling', run, funcs=[DU + '_PerAxisInterpolator._evaluate', DU + '_NearestInterpolator._evaluate', 'odl.discr.discr_ops:Resampling._call'], kind='B',
                bounded_in='2 grids (2 and 3 axes) x 4 memory layouts x 4 schemes, 10 pairs of spaces x 2 schemes')


def units(tier, seed):
    us = [unit_find_indices('float64'), unit_find_indices('float32'), unit_find_indices('complex64')]
    us.append(unit_interp(1, 'nearest-class'))
    us.append(unit_interp(2, 'nearest-class'))
    for kinds in (['nearest'], ['linear']):
        us.append(unit_interp(1, kinds))
    for kinds in (['linear', 'linear'], ['nearest', 'linear'], ['linear', 'nearest'], ['nearest', 'nearest']):
        us.append(unit_interp(2, kinds))
    us.append(unit_affine(1))
    us.append(unit_affine(2))
    for where in ('below', 'above'):
        for kind in ('class', 'per-axis'):
            us.append(unit_nearest_outside(where, kind))
    for nd in (1, 2, 3):
        for schemes in itertools.product(('nearest', 'linear'), repeat=nd):
            us.append(unit_resampling(schemes))
    from contracts import replay_c15
    for kind in replay_c15.KINDS:
        for ndim in (1, 2):
            us.append(unit_sampling_bounded(kind, ndim, tier))
    us.append(unit_interp_native_bounded())
    us.append(unit_canary())
    return us
