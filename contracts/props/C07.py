"""C07 - a proximal operator returns the minimiser of f(z) + ||z - x||^2 / (2 sigma).

pointwise/*  closed-form pointwise proximals: the real _call is executed on a symbolic element of an
             arbitrary weighted space; at the generic index the returned value p_i is proved to minimise
             phi(z) + (z - x_i)^2 / (2 sigma_i) over all real z (phi = integrand of the functional bound to
             the factory; the space weight multiplies both terms and cancels), and to satisfy the
             constraint for indicator functionals.  Scalar and per-point sigma, with / without g.
norm/*       proximal_l2 (norm-coupled): sub-gradient optimality in the space's own inner product.
calculus/*   translation, argument scaling, positive scaling, quadratic perturbation, constant offset,
             convex conjugation (Moreau), Bregman distance: p = h.proximal(sigma)(x) satisfies
             (x - p)/sigma in subdiff h(p), reduced by the subdifferential calculus to the prox
             characterisation of the abstract part f.
"""
import z3

from pyvc import core, interp as ip, odlmodel as om
from pyvc.core import S, C, V, VVar, VConst, VFresh, VLin, VPw, VApp, Unsupported, s_if, s_and, s_or, s_not
from pyvc.harness import Unit
from contracts import lib, oplib, tlib, makers, flib, callforms
from contracts.lib import content
from contracts.oplib import sem, value_of, v_mul, inner
from contracts.flib import FN, AbsFunc

META = {
    'level': 'proof',
    'trusted_base': [
        'pyvc symbolic interpreter (A7); element-API contracts (C01 arithmetic, C17 ufuncs pointwise, C02 weighted norms)',
        'a separable objective is minimised iff every summand is; the per-index objective is compared against ALL real z by z3 (QF_NRA)',
        'sub-differential calculus (positive scaling, argument scaling, translation, adding a quadratic / linear term, conjugation) and the '
        'characterisation p = prox(f, tau, w) <=> (w - p)/tau in subdiff f(p) for convex lsc proper f (A6)',
        'relative-epsilon fudge factors (finfo.resolution * 10) are taken as 0 (A1); KL conjugate: stationarity + convexity of -log (trusted)',
    ],
    'assumptions': ['A1', 'A2', 'A3', 'A5', 'A6', 'A7', 'sigma, lam, gamma > 0'],
    'not_decided': ['proj_simplex / proj_l1 / ProximalLInfty (sorting), nuclear norm (SVD), KL cross entropy (Lambert W), group (product-space) proximals - bounded functional-pool stand-in only -, '
                    'proximal_composition (combine_proximals / SeparableSum are under contract: separable-sum/*); firm non-expansiveness and idempotence follow from optimality for convex f (Moreau 1965, trusted theorem)'],
}


def phi_for(factory, P, lam):
    """integrand phi(z) of the functional documented for the factory, and the constraint set (or None)"""
    g = P.get('g')
    g = S.lift(0.0) if g is None else g
    if factory == 'proximal_l1':
        return (lambda z: lam * abs(z - g)), None
    if factory == 'proximal_l2_squared':
        return (lambda z: lam * (z - g) * (z - g)), None
    if factory == 'proximal_convex_conj_l2_squared':
        return (lambda z: z * z / (4 * lam) + z * g), None
    if factory == 'proximal_convex_conj_l1':
        return (lambda z: z * g), (lambda z: s_and(z <= lam, z >= -lam))
    if factory == 'proximal_box_constraint':
        lo, up = P.get('lower'), P.get('upper')
        cons = []
        return (lambda z: S.lift(0.0)), (lambda z: s_and(*([z >= lo] if lo is not None else []) + ([z <= up] if up is not None else []) + [S(z3.BoolVal(True))]))
    if factory == 'proximal_huber':
        gam = P['gamma']
        return (lambda z: s_if(abs(z) <= gam, z * z / (2 * gam), abs(z) - gam / 2)), None
    if factory == 'proximal_const_func':
        return (lambda z: S.lift(0.0)), None
    raise KeyError(factory)


def unit_pointwise(factory, opts):
    def run(ctx):
        I = ctx.I
        mk = makers.prox_maker(factory, **opts)

        def path(st):
            tlib.install(st)
            st.eps_zero = True
            fr = ip.Frame(st)
            m = mk(I, st, fr)
            x = m['domb'].element('x')
            try:
                ret = callforms.real_call(I, fr, m['inst'], x)
            except ip.PyRaise as e:
                return ('raise', e.exc)
            return ('ok', (m, x, ret, fr))
        info = {'factory': factory, 'options': {k: str(v) for k, v in opts.items()}}
        for st, (status, r) in ctx.explore(path):
            if status == 'raise':
                ctx.fail(st, 'no_raise', 'raises %s%r' % (lib.exc_name(r), r.fields.get('args')), info)
                continue
            m, x, ret, fr = r
            low = st.lower
            p = low(content(ret))
            xi = low(VVar('x', 'real'))
            prm = m['params']
            P = {}
            for k, v in prm.items():
                if v is None:
                    P[k] = None
                elif isinstance(v, ip.Obj):
                    P[k] = low(content(v))
                else:
                    P[k] = v
            sig = P['sigma']
            lam = P.get('lam', S.lift(1.0))
            phi, cons = phi_for(factory, P, lam)
            obj = lambda z: phi(z) + (z - xi) * (z - xi) / (2 * sig)
            z = S(z3.Real('z_any'))
            if cons is not None:
                ctx.prove(st, 'f(p) finite: p satisfies the constraint at every index', cons(p), info)
                goal = S(z3.Implies(cons(z).t, (obj(z) >= obj(p)).t))
            else:
                goal = obj(z) >= obj(p)
            ctx.prove(st, 'no z gives a smaller value of phi(z) + (z - x_i)^2/(2 sigma_i) than p_i (all z, every index)', goal, info)
    name = 'pointwise/%s/%s' % (factory, ','.join('%s=%s' % (k, v) for k, v in sorted(opts.items())))
    return Unit(name, run, funcs=[makers.PROX + factory], config={'factory': factory, 'options': str(opts)})


def unit_kl(g):
    """proximal_convex_conj_kl: F*(y) = sum -lam * g * log(1 - y/lam): stationarity lam*g/(lam - p) + (p - x)/sigma = 0, p < lam"""
    def run(ctx):
        I = ctx.I
        mk = makers.prox_maker('proximal_convex_conj_kl', g=g, sigma='scalar')

        def path(st):
            tlib.install(st)
            st.eps_zero = True
            fr = ip.Frame(st)
            m = mk(I, st, fr)
            if g:
                st.assume(st.lower(content(m['stored']['g'])) > 0)
            x = m['domb'].element('x')
            try:
                ret = callforms.real_call(I, fr, m['inst'], x)
            except ip.PyRaise as e:
                return ('raise', e.exc)
            return ('ok', (m, x, ret))
        info = {'factory': 'proximal_convex_conj_kl', 'g': g}
        for st, (status, r) in ctx.explore(path):
            if status == 'raise':
                ctx.fail(st, 'no_raise', 'raises %s' % lib.exc_name(r), info)
                continue
            m, x, ret = r
            low = st.lower
            p, xi = low(content(ret)), low(VVar('x', 'real'))
            lam, sig = m['params']['lam'], m['params']['sigma']
            gi = low(content(m['stored']['g'])) if g else S.lift(1.0)
            ctx.prove(st, 'p lies in the domain of F* (p < lam)', p < lam, info)
            ctx.prove(st, 'stationarity: lam*g/(lam - p) + (p - x)/sigma == 0 at every index', core.sc_eq(lam * gi * sig + (p - xi) * (lam - p), 0), info)
    return Unit('pointwise/proximal_convex_conj_kl/g=%s' % g, run, funcs=[makers.PROX + 'proximal_convex_conj_kl'], config={'g': g})


def unit_l2(g):
    """proximal_l2: F = lam ||x - g||: p != g: (x - p)/sigma == lam (p - g)/||p - g||;  p == g: ||x - g|| <= sigma lam"""
    def run(ctx):
        I = ctx.I
        mk = makers.prox_maker('proximal_l2', g=g, sigma='scalar')

        def path(st):
            flib.install(st, 'gram')
            st.eps_zero = True
            fr = ip.Frame(st)
            m = mk(I, st, fr)
            x = m['domb'].element('x')
            try:
                ret = callforms.real_call(I, fr, m['inst'], x)
            except ip.PyRaise as e:
                return ('raise', e.exc)
            X = m['domb']
            gc = content(m['stored']['g']) if g else VConst(0.0)
            xv = VVar('x', 'real')
            pv = content(ret)
            d_pg = VLin([(1, pv), (-1, gc)])
            d_xg = VLin([(1, xv), (-1, gc)])
            n_pg2 = inner(I, fr, X.space, d_pg, d_pg)
            n_xg2 = inner(I, fr, X.space, d_xg, d_xg)
            return ('ok', (m, pv, xv, gc, d_pg, n_pg2, n_xg2, fr))
        info = {'factory': 'proximal_l2', 'g': g}
        for st, (status, r) in ctx.explore(path):
            if status == 'raise':
                ctx.fail(st, 'no_raise', 'raises %s' % lib.exc_name(r), info)
                continue
            m, pv, xv, gc, d_pg, n_pg2, n_xg2, fr = r
            low = st.lower
            lam, sig = m['params']['lam'], m['params']['sigma']
            n_pg = core.ssqrt(n_pg2)
            # facts of the weighted sum of squares (w > 0): >= 0
            extra = [(n_pg2 >= 0).t, (n_xg2 >= 0).t]
            st.assume(n_pg2 >= 0)
            st.assume(n_xg2 >= 0)
            # case split on the symbolic norm of p - g
            lhs = low(VLin([(1 / sig, xv), (-1 / sig, pv)]))
            rhs_scaled = low(VLin([(lam, d_pg)]))
            ctx.prove(st, 'p != g: (x - p)/sigma * ||p - g|| == lam (p - g) at every index',
                      S(z3.Implies((n_pg2 > 0).t, core.sc_eq(lhs * n_pg, rhs_scaled).t)), info)
            ctx.prove(st, 'p == g (norm 0): ||x - g|| <= sigma * lam',
                      S(z3.Implies((n_pg2 == 0).t, (n_xg2 <= sig * sig * lam * lam).t)), info)
    return Unit('norm/proximal_l2/g=%s' % g, run, funcs=[makers.PROX + 'proximal_l2'], config={'g': g})


# --------------------------------------------------------------------------
# calculus rules

def build(I, st, fr, kind):
    X = makers.tspace(I, st, 'X', 'real')
    f = AbsFunc(I, st, 'f', X)
    cls = lambda n: I.get_class(FN + n)
    if kind == 'left_scalar':
        return X, I.call(cls('FunctionalLeftScalarMult'), [f.op, makers.pos_scalar(st, 's')], {}, fr)
    if kind == 'right_scalar':
        s = om.sym_scalar('s', 'real')
        st.assume(core.s_not(core.sc_eq(s, 0)))
        return X, I.call(cls('FunctionalRightScalarMult'), [f.op, s], {}, fr)
    if kind == 'translation':
        return X, I.call(cls('FunctionalTranslation'), [f.op, X.element('t')], {}, fr)
    if kind == 'scalar_sum':
        return X, I.call(cls('FunctionalScalarSum'), [f.op, om.sym_scalar('c', 'real')], {}, fr)
    if kind in ('quadpert', 'quadpert_nolin'):
        a = om.sym_scalar('a', 'real')
        st.assume(a >= 0)
        u = X.element('u') if kind == 'quadpert' else None
        return X, I.call(cls('FunctionalQuadraticPerturb'), [f.op], {'quadratic_coeff': a, 'linear_term': u, 'constant': om.sym_scalar('c', 'real')}, fr)
    if kind == 'conj':
        return X, I._getattr(f.op, 'convex_conj', fr)
    if kind == 'conj_of_translation':
        h0 = I.call(cls('FunctionalTranslation'), [f.op, X.element('t')], {}, fr)
        return X, I.call(cls('FunctionalDefaultConvexConjugate'), [h0], {}, fr)
    if kind == 'bregman':
        return X, I.call(cls('BregmanDistance'), [f.op, X.element('p'), X.element('sg')], {}, fr)
    if kind == 'scaled_translated':
        h0 = I.call(cls('FunctionalTranslation'), [f.op, X.element('t')], {}, fr)
        return X, I.call(cls('FunctionalLeftScalarMult'), [h0, makers.pos_scalar(st, 's')], {}, fr)
    raise KeyError(kind)


CALC = ['left_scalar', 'right_scalar', 'translation', 'scalar_sum', 'quadpert', 'quadpert_nolin', 'conj', 'conj_of_translation',
        'bregman', 'scaled_translated']


def unit_calculus(kind):
    def run(ctx):
        I = ctx.I

        def path(st):
            flib.install(st, 'gram')
            fr = ip.Frame(st)
            try:
                X, h = build(I, st, fr, kind)
                sigma = makers.pos_scalar(st, 'sigma')
                P = I.call(I._getattr(h, 'proximal', fr), [sigma], {}, fr)
                x = VVar('x', 'real')
                p = sem(I, fr, P, x)
                gneed = VLin([(1 / sigma, x), (-1 / sigma, p)])
                alts = flib.require_subgrad(I, fr, h, p, gneed)
            except ip.PyRaise as e:
                return ('raise', e.exc)
            return ('ok', (alts, p))
        info = {'kind': kind}
        for st, (status, r) in ctx.explore(path):
            if status == 'raise':
                ctx.fail(st, 'no_raise', 'raises %s%r' % (lib.exc_name(r), r.fields.get('args')), info)
                continue
            alts, p = r
            low = st.lower
            if not alts:
                ctx.fail(st, 'optimality: (x - p)/sigma in subdiff h(p)', 'the returned point is not built from a proximal of the inner functional', info)
                continue
            # one alternative must hold: disjunction of conjunctions of pointwise equalities
            disj = []
            for eqs in alts:
                disj.append(z3.And(*[lib.eq_goal(low, a, b).t for a, b in eqs]))
            ctx.prove(st, 'optimality: (x - p)/sigma in subdiff h(p) (via the prox characterisation of f)', S(z3.Or(*disj)), info)
    return Unit('calculus/%s' % kind, run, funcs=[FN + 'Functional*.proximal', makers.PROX + 'proximal_translation',
                                                  makers.PROX + 'proximal_arg_scaling', makers.PROX + 'proximal_quadratic_perturbation',
                                                  makers.PROX + 'proximal_convex_conj'], config={'kind': kind})


def unit_canary():
    """must-fail: soft threshold with threshold sigma*lam/2 claimed optimal for lam|z|"""
    def run(ctx):
        def path(st):
            return ('ok', None)
        for st, _ in ctx.explore(path):
            x, z = S(z3.Real('x')), S(z3.Real('z'))
            lam, sig = S(z3.Real('lam')), S(z3.Real('sig'))
            st.assume(lam > 0)
            st.assume(sig > 0)
            t = sig * lam / 2
            p = s_if(x > t, x - t, s_if(x < -t, x + t, 0.0))
            obj = lambda u: lam * abs(u) + (u - x) * (u - x) / (2 * sig)
            ctx.prove(st, 'canary', obj(z) >= obj(p), {})
    return Unit('canary/half-threshold', run, kind='canary', expect='refuted')


POINTWISE = [(f, o) for f, o in makers.PROX_CASES if f in ('proximal_l1', 'proximal_l2_squared', 'proximal_convex_conj_l2_squared',
                                                             'proximal_convex_conj_l1', 'proximal_box_constraint', 'proximal_huber', 'proximal_const_func')]



def unit_functional_pool_bounded():
    """BOUNDED stand-in (never counted as proved) for the built-in functionals outside the deductive units (sort / SVD / group-norm based closed forms,
    weighted power spaces, domains with several axes): one small instance per functional x space in contracts/funcpool.py, fixed random inputs: p = f.proximal(sigma)(x) has finite f(p), no probe z has a smaller f(z) + ||z - x||^2 / (2 sigma) in the norm of the space, in-place == out-of-place"""
    def run(ctx):
        from contracts import funcpool
        for name in sorted(funcpool.pool()):
            try:
                bad, n = funcpool.check_prox(name)
            except Exception as e:
                bad, n = 'check raised %s: %s' % (type(e).__name__, str(e)[:200]), 1
            if n == 0 and not bad:
                continue
            ctx.evals += max(n - 1, 0)
            ctx.bounded('built-in functional: the proximal returns the minimiser', not bad, {'functional': name}, detail=bad)
    return Unit('functional-pool/prox', run, funcs=['odl.solvers.functional.default_functionals:*', 'odl.solvers.nonsmooth.proximal_operators:*'], kind='B',
                bounded_in='one small instance per built-in functional x space in contracts/funcpool.py (130 entries), 2 step sizes x 3 random points x ~60 probes')


def units(tier, seed):
    us = [unit_pointwise(f, o) for f, o in POINTWISE]
    us += [unit_kl(False), unit_kl(True), unit_l2(False), unit_l2(True)]
    us += [unit_calculus(k) for k in CALC]
    from contracts import grouplib
    us.extend(grouplib.units())
    from contracts import grouplib as _gl
    us.append(_gl.unit_separable_sum(2 if 'C07' != 'C08' else 3))
    us.append(unit_functional_pool_bounded())
    us.append(unit_canary())
    return us


def replay(ob):
    if ob.get('unit', '').startswith('group/'):
        from contracts import funcpool
        pre = 'GroupL1Norm-2/' if 'proximal_l1_l2' in ob['unit'] else 'IndicatorGroupL1UnitBall-2/'
        for nm in sorted(funcpool.pool()):
            if nm.startswith(pre):
                try:
                    bad = funcpool.check_prox(nm)[0]
                except Exception as e:
                    bad = 'raised %s: %s' % (type(e).__name__, e)
                if bad:
                    return {'reproduced': True, 'detail': bad, 'input': {'functional': nm}}
        return {'reproduced': False, 'detail': 'minimiser probes hold natively for the %s* pool instances' % pre}
    if ob.get('unit', '').startswith('functional-pool/'):
        from contracts import funcpool
        try:
            bad = funcpool.check_prox((ob.get('model') or {}).get('functional'))[0]
        except Exception as e:
            bad = 'raised %s: %s' % (type(e).__name__, e)
        return {'reproduced': bool(bad), 'detail': bad or 'holds natively', 'input': ob.get('model')}
    from contracts import replay_c07
    return replay_c07.replay(ob)
