"""C04 - operator arithmetic means what the algebra table says, for arbitrary expressions.

Level 1/2  every operator-expression class: constructed through its real __init__ from abstract
           operands, then the real _call (both call forms) is compared with the semantic function
           `sem` (the property's table); domain / range / linearity of the result as implied;
           scalar-merging shortcuts of the constructors preserve `sem`.
Level 3    every arithmetic overload of Operator (and the OperatorRightScalarMult.__mul__ override)
           returns an operator r with  sem(r, v) == table(self, other, v)  for all v, for abstract
           linear / non-linear operands, functionals, scalars and vectors; unsupported operands give
           NotImplemented.
Arbitrary expression depth follows by structural induction: operands are arbitrary operators known
only through app(A, .) (Operator.__call__ contract, C03).
"""
import itertools

import z3

from pyvc import core, interp as ip, odlmodel as om
from pyvc.core import S, C, V, VVar, VConst, VFresh, VLin, VPw, VApp, Unsupported
from pyvc.harness import Unit
from contracts import lib, oplib
from contracts.lib import content, set_content, SPACE
from contracts.oplib import OP, AbsOp, FieldSpec, sem, v_add, v_mul, value_of

META = {
    'level': 'proof',
    'trusted_base': [
        'pyvc symbolic interpreter (Python subset semantics A7)',
        'contract of Operator.__new__/_dispatch_call_args (in-place / out-of-place binding from the signature of _call) - assumed here, cross-checked natively in C03',
        'contracts of LinearSpace / LinearSpaceElement arithmetic (proved in C01) and of Operator.__call__ (proved in C03)',
        'abstract operators are arbitrary maps app(A, .), linear ones distribute over linear combinations; A1 reals',
    ],
    'assumptions': ['A1', 'A2', 'A5', 'A7', 'operands of an expression are well-typed operators (domains/ranges as the constructors require)'],
    'not_decided': ['A ** n for n > 6 (loop in Operator.__pow__ unrolled: bounded-in n)',
                    'values of built-in functionals (C09)'],
}


def spaces(I, field='real'):
    X = oplib.register_space(lib.AbstractSpace(I, 'X', field))
    Y = oplib.register_space(lib.AbstractSpace(I, 'Y', field))
    Z = oplib.register_space(lib.AbstractSpace(I, 'Z', field))
    return X, Y, Z


def setup(st, I):
    st.cuts.update(oplib.std_cuts(oplib.make_elem_by_builder))


def get(I, fr, o, name):
    return I._getattr(o, name, fr)


def same_set(I, fr, a, b):
    return I.truth(I.py_eq(a, b, fr), fr)


# class semantics given constructor arguments (the table)
def table_sem(I, fr, clsname, args, v):
    if clsname == 'OperatorSum':
        return v_add(sem(I, fr, args[0], v), sem(I, fr, args[1], v))
    if clsname == 'OperatorVectorSum':
        return v_add(sem(I, fr, args[0], v), value_of(args[1]))
    if clsname == 'OperatorComp':
        return sem(I, fr, args[0], sem(I, fr, args[1], v))
    if clsname == 'OperatorPointwiseProduct':
        return v_mul(sem(I, fr, args[0], v), sem(I, fr, args[1], v))
    if clsname == 'OperatorLeftScalarMult':
        return v_mul(args[1], sem(I, fr, args[0], v))
    if clsname == 'OperatorRightScalarMult':
        return sem(I, fr, args[0], v_mul(args[1], v))
    if clsname == 'FunctionalLeftVectorMult':
        return v_mul(sem(I, fr, args[0], v), value_of(args[1]))
    if clsname == 'OperatorLeftVectorMult':
        return v_mul(value_of(args[1]), sem(I, fr, args[0], v))
    if clsname == 'OperatorRightVectorMult':
        return sem(I, fr, args[0], v_mul(value_of(args[1]), v))
    raise KeyError(clsname)


def build_case(I, st, clsname, variant, field):
    """returns (constructor args, expected dom builder, expected ran builder, expected linear, extra kwargs, vectors dict)"""
    X, Y, Z = spaces(I, field)
    F = FieldSpec(I, field)
    la, lb = variant.get('la', False), variant.get('lb', False)
    ranF = variant.get('ranF', False)
    vecs = {}
    kw = {}
    if clsname in ('OperatorSum', 'OperatorPointwiseProduct'):
        R = F if ranF else Y
        A, B = AbsOp(I, 'A', X, R, la), AbsOp(I, 'B', X, R, lb)
        args = [A.op, B.op]
        lin = (la and lb) if clsname == 'OperatorSum' else False
        if clsname == 'OperatorSum' and variant.get('tmp'):
            kw = {'tmp_ran': Y.element('tmp_ran'), 'tmp_dom': X.element('tmp_dom')}
            vecs.update(kw)
        return args, kw, X, R, lin, vecs, (X, Y, Z)
    if clsname == 'OperatorComp':
        R = F if ranF else Z
        A, B = AbsOp(I, 'A', Y, R, la), AbsOp(I, 'B', X, Y, lb)
        if variant.get('tmp'):
            kw = {'tmp': Y.element('tmp')}
            vecs.update(kw)
        return [A.op, B.op], kw, X, R, la and lb, vecs, (X, Y, Z)
    if clsname == 'OperatorVectorSum':
        A = AbsOp(I, 'A', X, Y, la)
        v = Y.element('vec')
        vecs['vec'] = v
        if variant.get('nested'):
            # (A + vec0) + vec: the wrapped operator is itself a vector sum; both vectors belong to the caller
            v0 = Y.element('vec0')
            vecs['vec0'] = v0
            return [('nested', I.get_class(OP + clsname), A.op, v0), v], kw, X, Y, False, vecs, (X, Y, Z)
        return [A.op, v], kw, X, Y, False, vecs, (X, Y, Z)
    if clsname in ('OperatorLeftScalarMult', 'OperatorRightScalarMult'):
        R = F if ranF else Y
        A = AbsOp(I, 'A', X, R, la)
        s = om.sym_scalar('s', field)
        inner = A.op
        if variant.get('nested'):
            t = om.sym_scalar('t', field)
            cls = I.get_class(OP + clsname)
            inner = ('nested', cls, A.op, t)
        if clsname == 'OperatorRightScalarMult' and variant.get('tmp'):
            kw = {'tmp': X.element('tmp')}
            vecs.update(kw)
        return [inner, s], kw, X, R, la, vecs, (X, Y, Z)
    if clsname == 'FunctionalLeftVectorMult':
        f = AbsOp(I, 'f', X, F, la)
        v = Y.element('vec')
        vecs['vec'] = v
        return [f.op, v], kw, X, Y, la, vecs, (X, Y, Z)
    if clsname == 'OperatorLeftVectorMult':
        A = AbsOp(I, 'A', X, Y, la)
        v = Y.element('vec')
        vecs['vec'] = v
        return [A.op, v], kw, X, Y, la, vecs, (X, Y, Z)
    if clsname == 'OperatorRightVectorMult':
        R = F if ranF else Y
        A = AbsOp(I, 'A', X, R, la)
        v = X.element('vec')
        vecs['vec'] = v
        return [A.op, v], kw, X, R, la, vecs, (X, Y, Z)
    raise KeyError(clsname)


VARIANTS = {
    'OperatorSum': [dict(la=a, lb=b, ranF=r, tmp=t) for a in (0, 1) for b in (0, 1) for r in (0, 1) for t in (0, 1) if not (r and t)],
    'OperatorPointwiseProduct': [dict(la=a, lb=b, ranF=r) for a in (0, 1) for b in (0, 1) for r in (0, 1)],
    'OperatorComp': [dict(la=a, lb=b, ranF=r, tmp=t) for a in (0, 1) for b in (0, 1) for r in (0, 1) for t in (0, 1)],
    'OperatorVectorSum': [dict(la=a, nested=n) for a in (0, 1) for n in (0, 1)],
    'OperatorLeftScalarMult': [dict(la=a, ranF=r, nested=n) for a in (0, 1) for r in (0, 1) for n in (0, 1)],
    'OperatorRightScalarMult': [dict(la=a, ranF=r, nested=n, tmp=t) for a in (0, 1) for r in (0, 1) for n in (0, 1) for t in (0, 1)],
    'FunctionalLeftVectorMult': [dict(la=a) for a in (0, 1)],
    'OperatorLeftVectorMult': [dict(la=a) for a in (0, 1)],
    'OperatorRightVectorMult': [dict(la=a, ranF=r) for a in (0, 1) for r in (0, 1)],
}


def unit_class(clsname, field, aliased=False, prop='C04'):
    """Level 1 + 2 for one expression class.  aliased=True: additionally the call op(x, out=x)
    (C10) when domain and range coincide."""
    def run(ctx):
        I = ctx.I
        cls = I.get_class(OP + clsname)
        for variant in VARIANTS[clsname]:
            for form in ('out-of-place', 'in-place'):
                if form == 'in-place' and variant.get('ranF'):
                    continue

                def path(st, variant=variant, form=form):
                    setup(st, I)
                    fr = ip.Frame(st)
                    args, kw, domb, ranb, lin, vecs, sp = build_case(I, st, clsname, variant, field)
                    orig_args = list(args)
                    if isinstance(args[0], tuple) and args[0][0] == 'nested':
                        _, ncls, aop, t = args[0]
                        inner = I.call(ncls, [aop, t], {}, fr)
                        args = [inner] + args[1:]
                        orig_args = list(args)
                    before = {k: value_of(v) for k, v in vecs.items()}
                    inst = I.call(cls, args, kw, fr)
                    x = domb.element('x') if not isinstance(domb, FieldSpec) else om.sym_scalar('x', field)
                    out = ranb.element('out') if form == 'in-place' else None
                    bystanders = dict(vecs)
                    bystanders['x'] = x
                    old = {k: value_of(v) for k, v in bystanders.items()}
                    expected = table_sem(I, fr, clsname, orig_args, value_of(x))
                    structural = sem(I, fr, inst, value_of(x))
                    try:
                        if form == 'in-place':
                            ret = I.call(get(I, fr, inst, '_call'), [x, out], {}, fr)
                        else:
                            ret = I.call(get(I, fr, inst, '_call'), [x], {}, fr)
                    except ip.PyRaise as e:
                        return ('raise', e.exc)
                    return ('ok', dict(inst=inst, ret=ret, out=out, x=x, old=old, by=bystanders, expected=expected, before=before,
                                       structural=structural, domb=domb, ranb=ranb, lin=lin, fr=fr, kw=kw))
                info = {'class': clsname, 'variant': variant, 'form': form, 'field': field}
                for st, (status, r) in ctx.explore(path):
                    low = st.lower
                    if status == 'raise':
                        ctx.fail(st, 'no_raise', 'raises %s%r' % (lib.exc_name(r), r.fields.get('args')), info)
                        continue
                    fr = r['fr']
                    inst = r['inst']
                    # Level 2: constructor
                    ctx.prove(st, 'ctor:domain', same_set(I, fr, get(I, fr, inst, 'domain'), r['domb'].space), info)
                    ctx.prove(st, 'ctor:range', same_set(I, fr, get(I, fr, inst, 'range'), r['ranb'].space), info)
                    ctx.prove(st, 'ctor:is_linear as implied', get(I, fr, inst, 'is_linear') == bool(r['lin']), info)
                    ctx.prove(st, 'ctor:stored fields have the table semantics (scalar merging)', lib.eq_goal(low, r['structural'], r['expected']), info)
                    for k in sorted(r['before']):
                        if k not in r['kw']:
                            # building an expression must not write to the caller's vectors (they are operands of other expressions too): compare with the content BEFORE construction
                            ctx.prove(st, 'ctor:operand vector %s is not modified by building the expression' % k, lib.eq_goal(low, r['old'][k], r['before'][k]), info)
                    # Level 1: _call
                    got = r['ret'] if form == 'out-of-place' else r['out']
                    if form == 'in-place':
                        ctx.prove(st, 'call:in-place returns None or out', r['ret'] is None or r['ret'] is r['out'], info)
                    elif isinstance(r['ranb'], FieldSpec):
                        ctx.prove(st, 'call:returns a scalar', I.scalar_kind(got) is not None, info)
                    else:
                        ok = isinstance(got, ip.Obj) and same_set(I, fr, get(I, fr, got, 'space'), r['ranb'].space)
                        ctx.prove(st, 'call:returns an element of the range', ok, info)
                        fresh = all(got is not b for b in r['by'].values())
                        ctx.prove(st, 'call:result is not an operand / stored vector', fresh, info)
                    if got is None or (not isinstance(got, ip.Obj) and I.scalar_kind(got) is None):
                        continue
                    ctx.prove(st, 'call:value == table', lib.eq_goal(low, value_of(got), r['expected']), info)
                    for k, b in sorted(r['by'].items()):
                        if b is not got and isinstance(b, ip.Obj) and k not in r['kw']:
                            ctx.prove(st, 'frame:%s unchanged' % k, lib.eq_goal(low, value_of(b), r['old'][k]), info)
    return Unit('class/%s/%s' % (clsname, field), run, funcs=[OP + clsname + '.__init__', OP + clsname + '._call'],
                config={'class': clsname, 'field': field})


# --------------------------------------------------------------------------
# Level 3: overloads

def table_overload(I, fr, dunder, self_op, other, okind, v, sp):
    """expected value at v of the operator returned by self.<dunder>(other)"""
    A = lambda u: sem(I, fr, self_op, u)
    if okind == 'op_same':          # B: X -> Y  (same domain / range)
        Bf = lambda u: sem(I, fr, other, u)
    if dunder in ('__add__', '__radd__'):
        if okind == 'op_same':
            return v_add(A(v), Bf(v))
        if okind == 'vec_ran':
            return v_add(A(v), value_of(other))
        if okind == 'scalar':
            return v_add(A(v), VLin([(other, VConst(1.0))]) if not oplib.is_field_obj(I, get(I, fr, self_op, 'range')) else other)
    if dunder == '__sub__':
        if okind == 'op_same':
            return v_add(A(v), v_mul(-1, Bf(v)))
        if okind == 'vec_ran':
            return v_add(A(v), v_mul(-1, value_of(other)))
        if okind == 'scalar':
            return v_add(A(v), VLin([(-other, VConst(1.0))]))
    if dunder == '__rsub__':
        if okind == 'op_same':
            return v_add(Bf(v), v_mul(-1, A(v)))
        if okind == 'vec_ran':
            return v_add(value_of(other), v_mul(-1, A(v)))
        if okind == 'scalar':
            return v_add(VLin([(other, VConst(1.0))]), v_mul(-1, A(v)))
    if dunder in ('__mul__', '__matmul__'):
        if okind == 'op_right':     # B: W -> X
            return A(sem(I, fr, other, v))
        if okind == 'scalar':
            return A(v_mul(other, v))
        if okind == 'vec_dom':
            return A(v_mul(value_of(other), v))
    if dunder in ('__rmul__', '__rmatmul__'):
        if okind == 'op_left':      # B: Y -> W
            return sem(I, fr, other, A(v))
        if okind == 'scalar':
            return v_mul(other, A(v))
        if okind == 'vec_ran':
            return v_mul(value_of(other), A(v))
        if okind == 'vec_for_functional':
            return v_mul(A(v), value_of(other))
    if dunder == '__truediv__' and okind == 'scalar':
        return A(v_mul(1 / core._sc(other), v))
    if dunder == '__neg__':
        return v_mul(-1, A(v))
    if dunder == '__pos__':
        return A(v)
    return None       # unsupported combination: NotImplemented expected


def classify(dunder, skind, okind):
    """role of `other` for this overload; 'skip' = ill-typed operator operand (constructors raise OpTypeError; outside
    the property), 'unsupported' = no table entry (NotImplemented / TypeError expected)"""
    endo = skind.startswith('endo')
    fun = skind.startswith('functional')
    ok2 = okind
    if okind == 'vec_dom' and endo and dunder in ('__add__', '__radd__', '__sub__', '__rsub__', '__rmul__', '__rmatmul__'):
        ok2 = 'vec_ran'
    if okind == 'vec_ran' and endo and dunder in ('__mul__', '__matmul__'):
        ok2 = 'vec_dom'
    if okind == 'vec_for_functional' and not fun:
        ok2 = 'foreign'
    if fun and okind in ('vec_dom', 'foreign') and dunder in ('__rmul__', '__rmatmul__'):
        ok2 = 'vec_for_functional'      # any vector over the functional's field: (v * f)(x) = v * f(x)
    if okind == 'op_left' and dunder not in ('__rmul__', '__rmatmul__'):
        return 'skip'
    if okind == 'op_right' and dunder not in ('__mul__', '__matmul__'):
        return 'skip'
    if okind == 'op_same' and dunder in ('__mul__', '__matmul__', '__rmul__', '__rmatmul__'):
        if not endo:
            return 'skip'
        ok2 = 'op_right' if dunder in ('__mul__', '__matmul__') else 'op_left'
    if okind == 'op_same' and dunder == '__truediv__':
        return 'unsupported'
    if okind == 'scalar' and fun and dunder in ('__add__', '__radd__', '__sub__', '__rsub__'):
        # scalar offsets of field-valued operators are defined by Functional (C09), plain Operator rejects them
        return 'unsupported'
    return ok2


OKINDS = ['op_same', 'op_right', 'op_left', 'scalar', 'vec_ran', 'vec_dom', 'vec_for_functional', 'foreign', 'text']
SELF_KINDS = ['abs_nonlin', 'abs_lin', 'functional_nonlin', 'functional_lin', 'rsm_nonlin', 'rsm_lin', 'lsm_nonlin', 'endo_nonlin', 'endo_lin']


def unit_overload(dunder, field):
    def run(ctx):
        I = ctx.I
        for skind in SELF_KINDS:
            kinds = OKINDS if dunder not in ('__neg__', '__pos__') else ['-']
            for okind in kinds:
                if okind != '-' and classify(dunder, skind, okind) == 'skip':
                    continue

                def path(st, skind=skind, okind=okind):
                    setup(st, I)
                    fr = ip.Frame(st)
                    X, Y, Z = spaces(I, field)
                    W = oplib.register_space(lib.AbstractSpace(I, 'W', field))
                    F = FieldSpec(I, field)
                    lin = skind.endswith('_lin')
                    endo = skind.startswith('endo')
                    ran = F if skind.startswith('functional') else (X if endo else Y)
                    A = AbsOp(I, 'A', X, ran, lin)
                    self_op = A.op
                    if skind.startswith('rsm'):
                        self_op = I.call(I.get_class(OP + 'OperatorRightScalarMult'), [A.op, om.sym_scalar('s0', field)], {}, fr)
                    elif skind.startswith('lsm'):
                        self_op = I.call(I.get_class(OP + 'OperatorLeftScalarMult'), [A.op, om.sym_scalar('s0', field)], {}, fr)
                    vecs = {}
                    if okind == 'op_same':
                        other = AbsOp(I, 'B', X, ran, False).op
                    elif okind == 'op_right':
                        other = AbsOp(I, 'B', W, X, False).op
                    elif okind == 'op_left':
                        other = AbsOp(I, 'B', ran, W, False).op
                    elif okind == 'scalar':
                        other = om.sym_scalar('s', field)
                        if dunder == '__truediv__':
                            st.assume(core.s_not(core.sc_eq(other, 0)))
                    elif okind == 'vec_ran':
                        if isinstance(ran, FieldSpec):
                            return ('skip', None)
                        other = vecs['v'] = ran.element('v')
                    elif okind == 'vec_dom':
                        other = vecs['v'] = X.element('v')
                    elif okind == 'vec_for_functional':
                        other = vecs['v'] = W.element('v')
                    elif okind == 'foreign':
                        other = vecs['v'] = Z.element('v')
                    elif okind == 'text':
                        other = 'text'
                    else:
                        other = None
                    old = {k: value_of(v) for k, v in vecs.items()}
                    f = get(I, fr, self_op, dunder)
                    try:
                        ret = I.call(f, [] if other is None else [other], {}, fr)
                    except ip.PyRaise as e:
                        return ('raise', (e.exc, fr))
                    return ('ok', dict(ret=ret, self_op=self_op, other=other, fr=fr, vecs=vecs, old=old, sp=(X, Y, Z, W, F), ran=ran, A=A))
                info = {'dunder': dunder, 'self': skind, 'other': okind, 'field': field}
                for st, (status, r) in ctx.explore(path):
                    if status == 'skip':
                        continue
                    low = st.lower
                    if status == 'raise':
                        exc, fr = r
                        ok2 = classify(dunder, skind, okind)
                        supported = ok2 != 'unsupported' and (dunder in ('__neg__', '__pos__') or ok2 in (
                            {'__add__': ('op_same', 'vec_ran', 'scalar'), '__radd__': ('op_same', 'vec_ran', 'scalar'),
                             '__sub__': ('op_same', 'vec_ran', 'scalar'), '__rsub__': ('op_same', 'vec_ran', 'scalar'),
                             '__mul__': ('op_right', 'scalar', 'vec_dom'), '__matmul__': ('op_right', 'scalar', 'vec_dom'),
                             '__rmul__': ('op_left', 'scalar', 'vec_ran', 'vec_for_functional'),
                             '__rmatmul__': ('op_left', 'scalar', 'vec_ran', 'vec_for_functional'),
                             '__truediv__': ('scalar',)}[dunder]))
                        if supported:
                            ctx.fail(st, 'no_raise', 'raises %s%r' % (lib.exc_name(exc), exc.fields.get('args')), info)
                        else:
                            ctx.prove(st, 'unsupported operand is rejected with TypeError', I.exc_isinstance(exc, 'TypeError'), info)
                        continue
                    fr, ret, self_op, other = r['fr'], r['ret'], r['self_op'], r['other']
                    X, Y, Z, W, F = r['sp']
                    # the domain of the resulting operator (where v lives)
                    domb = W if okind == 'op_right' and dunder in ('__mul__', '__matmul__') else X
                    v = VVar('v_arg', field)
                    ok2 = classify(dunder, skind, okind)
                    exp = table_overload(I, fr, dunder, self_op, other, ok2, v, r['sp'])
                    if exp is None or ok2 == 'unsupported':
                        ctx.prove(st, 'unsupported operand gives NotImplemented', ret is ip.NOTIMPL, info)
                        continue
                    if not isinstance(ret, ip.Obj) or not I.isinstance(ret, I.get_class(OP + 'Operator')):
                        ctx.fail(st, 'returns an operator', 'returned %r' % (ret,), info)
                        continue
                    got = sem(I, fr, ret, v)
                    ctx.prove(st, 'value == table for all v', lib.eq_goal(low, got, exp), info)
                    ctx.prove(st, 'domain of the result', same_set(I, fr, get(I, fr, ret, 'domain'), domb.space), info)
                    if ok2 == 'vec_for_functional':
                        exp_ran_space = get(I, fr, other, 'space')
                    elif okind in ('op_left', 'op_same') and ok2 == 'op_left':
                        exp_ran_space = get(I, fr, other, 'range')
                    else:
                        exp_ran_space = r['ran'].space
                    ctx.prove(st, 'range of the result', same_set(I, fr, get(I, fr, ret, 'range'), exp_ran_space), info)
                    lin_self = skind.endswith('_lin')
                    if ok2 in ('scalar',) and dunder not in ('__add__', '__radd__', '__sub__', '__rsub__') or dunder in ('__neg__', '__pos__') or ok2 in ('vec_dom', 'vec_for_functional') or (ok2 == 'vec_ran' and dunder in ('__rmul__', '__rmatmul__')):
                        exp_lin = lin_self
                    else:
                        exp_lin = False     # sums with a vector / non-linear B are not linear
                    ctx.prove(st, 'is_linear as implied', bool(get(I, fr, ret, 'is_linear')) == exp_lin, info)
                    for k, b in sorted(r['vecs'].items()):
                        ctx.prove(st, 'frame:operand vector %s unchanged' % k, lib.eq_goal(low, value_of(b), r['old'][k]), info)
    owner = 'Operator'
    return Unit('overload/%s/%s' % (dunder, field), run,
                funcs=[OP + 'Operator.' + dunder] + ([OP + 'OperatorRightScalarMult.__mul__'] if dunder == '__mul__' else []),
                config={'dunder': dunder, 'field': field})


POW_N = [1, 2, 3, 4, 5, 6]


def unit_pow(field):
    def run(ctx):
        I = ctx.I
        for lin in (False, True):
            for n in POW_N + [0, -1, 'real']:
                def path(st, n=n, lin=lin):
                    setup(st, I)
                    fr = ip.Frame(st)
                    X, Y, Z = spaces(I, field)
                    A = AbsOp(I, 'A', X, X, lin)
                    nn = 2.5 if n == 'real' else n
                    ret = I.call(get(I, fr, A.op, '__pow__'), [nn], {}, fr)
                    return ('ok', (ret, A, fr, X))
                info = {'n': n, 'linear': lin, 'field': field}
                for st, (status, (ret, A, fr, X)) in ctx.explore(path):
                    if n in (0, -1, 'real'):
                        ctx.prove(st, 'non-positive / non-integer power gives NotImplemented', ret is ip.NOTIMPL, info)
                        continue
                    v = VVar('v_arg', field)
                    exp = v
                    for _ in range(n):
                        exp = sem(I, fr, A.op, exp)
                    if not isinstance(ret, ip.Obj):
                        ctx.fail(st, 'returns an operator', 'returned %r' % (ret,), info)
                        continue
                    ctx.prove(st, 'A**n is the n-fold composition', lib.eq_goal(st.lower, sem(I, fr, ret, v), exp), info)
                    ctx.prove(st, 'is_linear as implied', bool(get(I, fr, ret, 'is_linear')) == lin, info)
    return Unit('overload/__pow__/%s' % field, run, funcs=[OP + 'Operator.__pow__'], config={'field': field},
                bounded_in='exponent n in 1..%d' % POW_N[-1])


def unit_canary():
    """must-fail: (A*a) for non-linear A claimed to equal a*A"""
    def run(ctx):
        I = ctx.I

        def path(st):
            setup(st, I)
            fr = ip.Frame(st)
            X, Y, Z = spaces(I, 'real')
            A = AbsOp(I, 'A', X, Y, False)
            s = om.sym_scalar('s', 'real')
            ret = I.call(get(I, fr, A.op, '__mul__'), [s], {}, fr)
            return ('ok', (ret, A, s, fr))
        for st, (status, (ret, A, s, fr)) in ctx.explore(path):
            v = VVar('v_arg', 'real')
            ctx.prove(st, 'canary', lib.eq_goal(st.lower, sem(I, fr, ret, v), v_mul(s, sem(I, fr, A.op, v))), {})
    return Unit('canary/right-scalar-mult-is-left', run, kind='canary', expect='refuted')


DUNDERS = ['__add__', '__radd__', '__sub__', '__rsub__', '__mul__', '__matmul__', '__rmul__', '__rmatmul__',
           '__truediv__', '__neg__', '__pos__']


def units(tier, seed):
    us = []
    for field in ('real', 'complex'):
        for c in sorted(VARIANTS):
            us.append(unit_class(c, field))
        for d in DUNDERS:
            us.append(unit_overload(d, field))
        us.append(unit_pow(field))
    # Functional arithmetic (the property holds "for functionals"): shared with C09
    from contracts.props import C09
    for d in ('__mul__', '__rmul__', '__add__', '__sub__'):
        u = C09.unit_overload(d)
        u.name = 'functional-' + u.name
        us.append(u)
    us.append(unit_canary())
    return us


def replay_construction(ob):
    """native: building expressions from caller-owned vectors leaves the vectors alone, and a vector reused in a second expression still has its value"""
    import os
    import sys
    root = os.environ.get('PYVC_REPO', '/repo')
    if root not in sys.path:
        sys.path.insert(0, root)
    import numpy as np
    import odl
    X = odl.rn(3)
    A = odl.MatrixOperator(np.arange(9.0).reshape(3, 3) / 4)
    N = odl.ufunc_ops.sin(X) * A
    for op in (A, N):
        v, w, x = X.element([1, 2, 3]), X.element([10, 20, 30]), X.element([0.5, -1, 2])
        v0, w0 = v.copy(), w.copy()
        exprs = {'(A + v) + w': lambda: (op + v) + w, '((A + v) + w) + w': lambda: ((op + v) + w) + w, '(A * v) * w': lambda: (op * v) * w, '(v * A) + w': lambda: (v * op) + w,
                 'w * (A + v)': lambda: w * (op + v), '(A + v) - w': lambda: (op + v) - w}
        for label, mk in exprs.items():
            e = mk()
            if (v - v0).norm() != 0 or (w - w0).norm() != 0:
                return {'reproduced': True, 'detail': 'building %s modified the caller\'s vectors: v = %r (was %r), w = %r (was %r)' % (label, v, v0, w, w0)}
            e(x)
            if (v - v0).norm() != 0 or (w - w0).norm() != 0:
                return {'reproduced': True, 'detail': 'evaluating %s modified the caller\'s vectors' % label}
    return {'reproduced': False, 'detail': 'operand vectors untouched by construction and evaluation natively'}


def replay(ob):
    if 'operand vector' in ob.get('name', '') or ob.get('name', '').startswith('frame:vec'):
        try:
            r = replay_construction(ob)
            if r.get('reproduced'):
                return r
        except Exception as e:
            return {'reproduced': False, 'detail': 'replay harness error: %r' % (e,)}
    from contracts import replay_ops
    return replay_ops.replay_overload(ob)
