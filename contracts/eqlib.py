"""C20 vocabulary: abstract leaf sets / spaces with a symbolic identity class, comparison of abstract hash values."""
import itertools

import z3

from pyvc import core, interp as ip, npmodel as npm
from pyvc.core import S, C, V, Unsupported


def hash_eq(st, h1, h2):
    """sufficient condition for hash(a) == hash(b) as an S bool (structural equality of the hashed keys; Python guarantees
    equal hashes for equal numbers, equal tuples, equal frozensets, identical bytes)"""
    T, F = core.sbool(True), core.sbool(False)
    if not (isinstance(h1, tuple) and isinstance(h2, tuple)):
        return T if h1 == h2 else F
    k1, k2 = h1[0], h2[0]
    if {k1, k2} <= {'num', 'symhash'}:
        return core.sbool(core.sc_eq(_num(h1), _num(h2)))
    if k1 != k2:
        return F
    if k1 == 'hash':
        if len(h1[1]) != len(h2[1]):
            return F
        return core.s_and(*[hash_eq(st, a, b) for a, b in zip(h1[1], h2[1])]) if h1[1] else T
    if k1 == 'fset':
        a, b = h1[1], h2[1]
        if len(a) != len(b):
            return F
        if len(a) > 4:
            raise Unsupported('hash of a frozenset with more than 4 symbolic members')
        alts = []
        for pm in itertools.permutations(range(len(b))):
            alts.append(core.s_and(*[hash_eq(st, a[i], b[j]) for i, j in enumerate(pm)]) if a else T)
        return core.s_or(*alts) if alts else T
    if k1 == 'bytes':
        return bytes_eq(st, h1[1], h2[1])
    if k1 == 'numseq':
        # tuple of the array's values: numbers hash by value (0.0 and -0.0 alike)
        low = st.lower
        return core.s_and(shape_eq(h1[1].shape, h2[1].shape), core.sbool(core.sc_eq(low(h1[1].content), low(h2[1].content))))
    if k1 == 'leafhash':
        return core.sbool(core.sc_eq(h1[1], h2[1]))
    return T if h1 == h2 else F


def _num(h):
    if h[0] == 'num':
        return S.lift(float(h[1])) if h[1].denominator != 1 else S.lift(int(h[1]))
    return h[1]


def bytes_eq(st, b1, b2):
    """identical memory images: same dtype and shape, and at every index the same bit pattern.  For floating dtypes equal
    VALUES have equal bits except for the two zeros (+0.0 == -0.0), so value equality suffices only away from zero."""
    if b1.buf is b2.buf and b1.content is b2.content:
        return core.sbool(True)
    if b1.dtype.name != b2.dtype.name:
        return core.sbool(False)
    low = st.lower
    c1, c2 = low(b1.content), low(b2.content)
    same = core.sbool(core.sc_eq(c1, c2))
    if b1.dtype.kind in ('float', 'complex') and not (getattr(b1.buf, 'zero_normalised', False) and getattr(b2.buf, 'zero_normalised', False)):
        same = core.s_and(same, core.s_not(core.sbool(core.sc_eq(c1, 0))))
    sh = shape_eq(b1.shape, b2.shape)
    return core.s_and(sh, same)


def shape_eq(s1, s2):
    t1 = tuple(s1) if isinstance(s1, (tuple, list)) else (s1.size,)
    t2 = tuple(s2) if isinstance(s2, (tuple, list)) else (s2.size,)
    if len(t1) != len(t2):
        return core.sbool(False)
    return core.s_and(*[core.sbool(core.sc_eq(core.S.lift(a), core.S.lift(b))) for a, b in zip(t1, t2)]) if t1 else core.sbool(True)


class Leaves(object):
    """abstract leaf objects (arbitrary Set / LinearSpace / Weighting instances): equality is an arbitrary equivalence relation,
    represented by a symbolic class index; hash is a function of the class (the laws are assumed for the leaves and proved for
    everything built from them: structural induction)"""

    def __init__(self, I):
        self.I = I

    def make(self, qual, name):
        o = ip.Obj(self.I.get_class(qual))
        o.key = S(z3.Int('cls_' + name))
        o.leafname = name
        return o


def leaf_cuts():
    def eq(I, fr, self, other):
        if other is self:
            return True
        if isinstance(other, ip.Obj) and getattr(other, 'key', None) is not None and getattr(self, 'key', None) is not None:
            if other.cls is not self.cls:
                return False
            return core.sc_eq(self.key, other.key)
        if isinstance(other, ip.Obj) and getattr(self, 'key', None) is not None:
            return ip.NOTIMPL
        return False

    def hsh(I, fr, self):
        if getattr(self, 'key', None) is None:
            raise Unsupported('hash of a non-leaf abstract object')
        return ('leafhash', self.key)

    def ne(I, fr, self, other):
        r = eq(I, fr, self, other)
        if r is ip.NOTIMPL:
            return r
        return core.s_not(core.sbool(r)) if isinstance(r, S) else (not r)
    return eq, hsh, ne
