"""Native replay for finite_diff obligations: full matrices / stencil comparison for the model's n."""
import os
import sys


def replay(ob):
    rp = ob.get('replay') or {}
    if rp.get('kind') == 'ops_call':
        return replay_ops_call(ob, rp)
    if rp.get('kind') not in ('fd', 'transpose'):
        return {'reproduced': False, 'detail': 'no native concretisation for this obligation kind'}
    root = os.environ.get('PYVC_REPO', '/repo')
    if root not in sys.path:
        sys.path.insert(0, root)
    import numpy as np
    from odl.discr import diff_ops as D
    m = ob.get('model') or {}
    method, pad = rp['method'], rp['pad_mode']
    n0 = int(m.get('n', 4))
    sizes = [n0] + [s for s in (2, 3, 4, 5, 7) if s != n0]
    for n in sizes:
        if n < (3 if 'order2' in pad or 'order2' in D._ADJ_PADDING[pad] else 2):
            continue
        try:
            def mat(me, pa):
                M = np.zeros((n, n))
                for j in range(n):
                    e = np.zeros(n)
                    e[j] = 1
                    M[:, j] = D.finite_diff(e, axis=0, dx=1.0, method=me, pad_mode=pa, pad_const=0)
                return M
            if rp['kind'] == 'transpose':
                M = mat(method, pad)
                Ma = mat(D._ADJ_METHOD[method], D._ADJ_PADDING[pad])
                if not np.allclose(Ma, -M.T):
                    bad = np.argwhere(~np.isclose(Ma, -M.T))[0]
                    return {'reproduced': True, 'detail': 'n=%d: adjoint-mode matrix differs from -transpose at (j,k)=%s: %g vs %g' % (
                        n, tuple(bad), Ma[tuple(bad)], -M.T[tuple(bad)]), 'input': {'n': n, 'method': method, 'pad_mode': pad}}
            else:
                rng = np.random.default_rng(0)
                f = rng.standard_normal(n)
                c = 0.7
                got = D.finite_diff(f, axis=0, dx=0.5, method=method, pad_mode=pad, pad_const=c) * 0.5
                npad = {'constant': dict(mode='constant', constant_values=c), 'periodic': dict(mode='wrap'), 'symmetric': dict(mode='symmetric'),
                        'order0': dict(mode='edge')}.get(pad)
                if npad is not None:
                    g = np.pad(f, 1, **npad)
                elif pad == 'order1':
                    g = np.concatenate([[2 * f[0] - f[1]], f, [2 * f[-1] - f[-2]]])
                else:
                    g = np.concatenate([[3 * f[0] - 3 * f[1] + f[2]], f, [3 * f[-1] - 3 * f[-2] + f[-3]]])
                st = {'forward': g[2:] - g[1:-1], 'backward': g[1:-1] - g[:-2], 'central': (g[2:] - g[:-2]) / 2}
                want = st[method].copy()
                if pad == 'order2':
                    want[0], want[-1] = st['central'][0], st['central'][-1]
                if not np.allclose(got, want):
                    return {'reproduced': True, 'detail': 'n=%d: %s vs reference stencil %s' % (n, got, want), 'input': {'n': n, 'f': f.tolist()}}
        except Exception as e:
            return {'reproduced': 'no_raise' in ob.get('name', ''), 'detail': 'n=%d: native call raised %s: %s' % (n, type(e).__name__, e)}
    return {'reproduced': False, 'detail': 'contract holds natively for n in %s' % sizes}


def replay_ops_call(ob, rp):
    """the real operator classes on small 1-d and 2-d spaces: op(x, out=<stale>) against separate calls of the real finite_diff per axis"""
    root = os.environ.get('PYVC_REPO', '/repo')
    if root not in sys.path:
        sys.path.insert(0, root)
    import numpy as np
    import odl
    from odl.discr import diff_ops as D
    cname, method, pad = rp['class'], rp['method'], rp['pad_mode']
    rng = np.random.default_rng(2)
    c = 0.7 if pad == 'constant' else 0
    for shape in ((3,), (4,), (6,), (3, 4)):
        if min(shape) < (3 if 'order2' in pad else 2):
            continue
        X = odl.uniform_discr([0.0] * len(shape), [1.0 + a for a in range(len(shape))], shape)
        dx = X.cell_sides
        try:
            if cname == 'Laplacian':
                op = odl.Laplacian(X, pad_mode=pad, pad_const=c)
                x = X.element(rng.standard_normal(shape))
                want = sum(D.finite_diff(x.asarray(), axis=a, dx=dx[a] ** 2, method='forward', pad_mode=pad, pad_const=c) -
                           D.finite_diff(x.asarray(), axis=a, dx=dx[a] ** 2, method='backward', pad_mode=pad, pad_const=c) for a in range(len(shape)))
            elif cname == 'PartialDerivative':
                ax = len(shape) - 1
                op = odl.PartialDerivative(X, ax, method=method, pad_mode=pad, pad_const=c)
                x = X.element(rng.standard_normal(shape))
                want = D.finite_diff(x.asarray(), axis=ax, dx=dx[ax], method=method, pad_mode=pad, pad_const=c)
            else:
                op = odl.Divergence(range=X, method=method, pad_mode=pad, pad_const=c)
                x = op.domain.element([rng.standard_normal(shape) for _ in range(len(shape))])
                want = sum(D.finite_diff(x[a].asarray(), axis=a, dx=dx[a], method=method, pad_mode=pad, pad_const=c) for a in range(len(shape)))
            out = op.range.element(rng.standard_normal(shape) * 10)
            got = op(x, out=out)
            got2 = op(x)
        except Exception as e:
            return {'reproduced': 'no_raise' in ob.get('name', ''), 'detail': '%s on shape %r: native call raised %s: %s' % (cname, shape, type(e).__name__, e)}
        if got is not out or not np.allclose(out.asarray(), want) or not np.allclose(got2.asarray(), want):
            return {'reproduced': True, 'detail': '%s(%s, %s) on shape %r: in-place %r, out-of-place %r, finite_diff reference %r' % (cname, method, pad, shape, out.asarray(), got2.asarray(), want),
                    'input': {'shape': list(shape)}}
    return {'reproduced': False, 'detail': 'operator _call agrees with finite_diff natively'}
