"""Shared contract vocabulary: abstract spaces / elements and the contracts (cut points) of the
LinearSpace interface.  A contract here is an executable specification over the symbolic state;
each one is *proved* against the real source by a unit of some property module and *used* at call
sites of other units (callers see the contract, never the body)."""
import z3

from pyvc import core, interp as ip, npmodel as npm
from pyvc.core import S, C, V, VVar, VConst, VFresh, VLin, VPw, Unsupported, sbool, s_and, s_or, s_not

SPACE = 'odl.set.space:'


def content(x):
    if hasattr(x, 'buf'):
        return x.buf.content
    return x.content


def set_content(x, v):
    if hasattr(x, 'buf'):
        x.buf.content = v
    else:
        x.content = v


class AbstractSpace(object):
    """An arbitrary LinearSpace (instance of the real class `LinearSpace`) over `field`.
    Its abstract methods are given by the cut points returned by `cuts()`."""

    def __init__(self, I, name='X', field='real', has_one=True, has_multiply=True):
        self.I, self.name, self.field = I, name, field
        self.cls = I.get_class(SPACE + 'LinearSpace')
        self.ecls = I.get_class(SPACE + 'LinearSpaceElement')
        sp = ip.Obj(self.cls)
        from pyvc.odlmodel import field_obj
        sp.fields['_LinearSpace__field'] = field_obj(I, field) if field else None
        sp.tag = name
        sp.eqclass = name      # abstract equality: spaces are equal iff they carry the same eqclass
        self.space = sp
        self.has_one, self.has_multiply = has_one, has_multiply
        self.n = 0

    def element(self, name=None, cont=None):
        x = ip.Obj(self.ecls)
        x.fields['_LinearSpaceElement__space'] = self.space
        if name is None:
            self.n += 1
            name = '%s.tmp%d' % (self.name, self.n)
        x.content = cont if cont is not None else VVar(name, self.field or 'real')
        x.ename = name
        return x


def in_space(I, fr, x, space):
    """`x in space` as the real code decides it"""
    return I.truth(I.contains(space, x, fr), fr)


def in_field(I, fr, a, space):
    fld = I._getattr(space, 'field', fr)
    if fld is None:
        return True
    return I.truth(I.contains(fld, a, fr), fr)


def raise_(I, clsq, msg=''):
    cls = I.get_class(clsq)
    o = ip.Obj(cls)
    o.fields['args'] = (msg,)
    raise ip.PyRaise(o)


def set_eq_cuts():
    """abstract Set.__eq__ (an equivalence relation given by `eqclass` tags; C20 proves the concrete ones)"""
    def eq(I, fr, self, other):
        if other is self:
            return True
        return isinstance(other, ip.Obj) and getattr(other, 'eqclass', None) is not None and \
            getattr(other, 'eqclass', None) == getattr(self, 'eqclass', object())

    return {'odl.set.sets:Set.__eq__': eq}


# --------------------------------------------------------------------------
# abstract kernel contracts of a LinearSpace (the methods concrete spaces override)

def abstract_space_cuts(asp):
    """contracts of the abstract methods, valid for every concrete space (each concrete override is
    proved to refine them in C01)"""

    def _lincomb(I, fr, self, a, x1, b, x2, out):
        v = VLin([(a, content(x1)), (b, content(x2))])
        set_content(out, v)
        fr.st.events.append(('write', out))
        return None

    def _multiply(I, fr, self, x1, x2, out):
        set_content(out, core.vmul(content(x1), content(x2)))
        fr.st.events.append(('write', out))

    def _divide(I, fr, self, x1, x2, out):
        set_content(out, core.vdiv(content(x1), content(x2)))
        fr.st.events.append(('write', out))

    def element(I, fr, self, inp=None, **kw):
        if inp is None:
            return asp.element(cont=VFresh(fr.st.fresh('elem'), asp.field or 'real'))
        if isinstance(inp, ip.Obj) and in_space(I, fr, inp, self):
            return inp
        raise ip.PyRaise(I.make_exc('TypeError', 'cannot convert to element'))

    def one(I, fr, self):
        return asp.element(cont=VConst(1.0))

    cuts = {SPACE + 'LinearSpace._lincomb': _lincomb, SPACE + 'LinearSpace.element': element}
    cuts.update(set_eq_cuts())
    if asp.has_multiply:
        cuts[SPACE + 'LinearSpace._multiply'] = _multiply
        cuts[SPACE + 'LinearSpace._divide'] = _divide
    if asp.has_one:
        cuts[SPACE + 'LinearSpace.one'] = one
    return cuts


# --------------------------------------------------------------------------
# contracts of the public LinearSpace interface (proved from source in C01 against the abstract
# kernel contracts above; used by every caller)

def space_api_cuts(make_elem):
    """lincomb / multiply / divide / element / one / zero of an arbitrary space.
    make_elem(fr, space, content) creates a fresh element of `space`."""
    TE = SPACE + 'LinearSpaceTypeError'

    def lincomb(I, fr, self, a, x1, b=None, x2=None, out=None):
        if out is None:
            out = make_elem(fr, self, VFresh(fr.st.fresh('elem')))
        elif not in_space(I, fr, out, self):
            raise_(I, TE, '`out` not in space')
        if not in_field(I, fr, a, self):
            raise_(I, TE, '`a` not in field')
        if not in_space(I, fr, x1, self):
            raise_(I, TE, '`x1` not in space')
        if b is None:
            if x2 is not None:
                raise ip.PyRaise(I.make_exc('ValueError', '`x2` provided but not `b`'))
            set_content(out, VLin([(a, content(x1))]))
        else:
            if not in_field(I, fr, b, self):
                raise_(I, TE, '`b` not in field')
            if not in_space(I, fr, x2, self):
                raise_(I, TE, '`x2` not in space')
            set_content(out, VLin([(a, content(x1)), (b, content(x2))]))
        fr.st.events.append(('write', out))
        return out

    def _binary(op):
        def f(I, fr, self, x1, x2, out=None):
            if out is None:
                out = make_elem(fr, self, VFresh(fr.st.fresh('elem')))
            if not in_space(I, fr, out, self):
                raise_(I, TE, '`out` not in space')
            if not in_space(I, fr, x1, self):
                raise_(I, TE, '`x1` not in space')
            if not in_space(I, fr, x2, self):
                raise_(I, TE, '`x2` not in space')
            set_content(out, op(content(x1), content(x2)))
            fr.st.events.append(('write', out))
            return out
        return f

    def element(I, fr, self, inp=None, **kw):
        if inp is None:
            return make_elem(fr, self, VFresh(fr.st.fresh('elem')))
        if isinstance(inp, ip.Obj) and in_space(I, fr, inp, self):
            return inp
        if hasattr(inp, 'wrapped_elem'):
            # an array-like of matching shape / dtype (the caller's ndarray): wrapped WITHOUT copy (C17 contract of element(arr)) - the element shares its memory
            if in_space(I, fr, inp.wrapped_elem, self):
                return inp.wrapped_elem
            raise ip.PyRaise(I.make_exc('TypeError', 'cannot convert to element'))
        if hasattr(inp, 'materialise'):
            # a real/imag *view* of another element is an element of the (real) space that shares memory
            e = inp.materialise()
            if in_space(I, fr, e, self):
                e.view_of = inp.x
                return e
        raise ip.PyRaise(I.make_exc('TypeError', 'cannot convert to element'))

    def one(I, fr, self):
        return make_elem(fr, self, VConst(1.0))

    def zero(I, fr, self):
        return make_elem(fr, self, VConst(0.0))

    d = set_eq_cuts()
    d.update({
        SPACE + 'LinearSpace.lincomb': lincomb,
        SPACE + 'LinearSpace.multiply': _binary(core.vmul),
        SPACE + 'LinearSpace.divide': _binary(core.vdiv),
        SPACE + 'LinearSpace.element': element,
        SPACE + 'LinearSpace.one': one,
        SPACE + 'LinearSpace.zero': zero,
    })
    return d


# --------------------------------------------------------------------------
# helpers for harnesses

class ArrayLike(object):
    """the caller's ndarray handed to an element operation: known through the element `space.element(arr)` wraps around it (shared memory)"""

    def __init__(self, wrapped_elem):
        self.wrapped_elem = wrapped_elem

    def pv_getattr(self, I, fr, name):
        if name == '__array_priority__':
            return 0.0
        raise ip.PyRaise(I.make_exc('AttributeError', 'numpy.ndarray object has no attribute %r' % name))


ALIAS3 = [('x', 'y', 'o'), ('x', 'x', 'o'), ('o', 'y', 'o'), ('x', 'o', 'o'), ('o', 'o', 'o')]


def eq_goal(low, a, b):
    return core.sc_eq(low(a), low(b))


def exc_name(exc):
    return exc.cls.name if isinstance(exc, ip.Obj) else repr(exc)


def exc_desc(exc):
    if isinstance(exc, ip.Obj):
        at = getattr(exc, 'raised_at', None)
        return '%s%r%s' % (exc.cls.name, exc.fields.get('args'), ' [at %s]' % at if at else '')
    return repr(exc)


def bad_events(st, allow=()):
    """side obligations recorded by kernel contracts: index misalignment, BLAS preconditions"""
    out = []
    for e in st.events:
        if e[0] in ('misaligned', 'blas-precondition') and e[0] not in allow:
            out.append(e)
    return out


def assume_nonzero(st, var, field='real'):
    """precondition: the entries of the free vector `var` are non-zero (division / negative powers)"""
    low = core.Lower([])
    v = low(VVar(var, field))
    st.assume(core.s_not(core.sc_eq(v, 0)))


# --------------------------------------------------------------------------
# contracts of the LinearSpaceElement arithmetic (proved in C01 elem/*; the table is shared)

def _one():
    return VConst(1.0)


BIN_TABLE = {
    # name: (in-place?, element spec(x, o), scalar spec(x, s))
    '__add__': (False, lambda x, o: VLin([(1, x), (1, o)]), lambda x, s: VLin([(1, x), (s, _one())])),
    '__radd__': (False, lambda x, o: VLin([(1, x), (1, o)]), lambda x, s: VLin([(1, x), (s, _one())])),
    '__iadd__': (True, lambda x, o: VLin([(1, x), (1, o)]), lambda x, s: VLin([(1, x), (s, _one())])),
    '__sub__': (False, lambda x, o: VLin([(1, x), (-1, o)]), lambda x, s: VLin([(1, x), (-s, _one())])),
    '__rsub__': (False, lambda x, o: VLin([(-1, x), (1, o)]), lambda x, s: VLin([(-1, x), (s, _one())])),
    '__isub__': (True, lambda x, o: VLin([(1, x), (-1, o)]), lambda x, s: VLin([(1, x), (-s, _one())])),
    '__mul__': (False, lambda x, o: core.vmul(x, o), lambda x, s: VLin([(s, x)])),
    '__rmul__': (False, lambda x, o: core.vmul(x, o), lambda x, s: VLin([(s, x)])),
    '__imul__': (True, lambda x, o: core.vmul(x, o), lambda x, s: VLin([(s, x)])),
    '__truediv__': (False, lambda x, o: core.vdiv(x, o), lambda x, s: VLin([(1 / core._sc(s), x)])),
    '__rtruediv__': (False, lambda x, o: core.vdiv(o, x), lambda x, s: core.vdiv(VConst(s), x)),
    '__itruediv__': (True, lambda x, o: core.vdiv(x, o), lambda x, s: VLin([(1 / core._sc(s), x)])),
}


def elem_api_cuts(make_elem):
    """contracts of the element dunders / assign / copy / set_zero / lincomb / __neg__ / __pos__ for an
    element `self` of an arbitrary space; make_elem(fr, space, content) allocates a fresh element."""
    E = SPACE + 'LinearSpaceElement.'
    TE = SPACE + 'LinearSpaceTypeError'
    cuts = {}

    def space_of(I, fr, x):
        return I._getattr(x, 'space', fr)

    def mk_bin(dunder):
        inplace, espec, sspec = BIN_TABLE[dunder]

        def f(I, fr, self, other):
            sp = space_of(I, fr, self)
            if isinstance(other, ip.Obj) and in_space(I, fr, other, sp):
                val = espec(content(self), content(other))
            elif I.scalar_kind(other) is not None and in_field(I, fr, other, sp):
                val = sspec(content(self), other)
            else:
                if inplace:
                    raise ip.PyRaise(I.make_exc('TypeError', 'unsupported operand for in-place arithmetic'))
                return ip.NOTIMPL
            if inplace:
                set_content(self, val)
                fr.st.events.append(('write', self))
                return self
            return make_elem(fr, sp, val)
        return f
    for d in BIN_TABLE:
        cuts[E + d] = mk_bin(d)

    def assign(I, fr, self, other):
        sp = space_of(I, fr, self)
        if not in_space(I, fr, other, sp):
            raise_(I, TE, 'assign from a foreign element')
        set_content(self, content(other))
        fr.st.events.append(('write', self))
        return self

    def copy(I, fr, self):
        return make_elem(fr, space_of(I, fr, self), content(self))

    def set_zero(I, fr, self):
        set_content(self, VConst(0.0))
        fr.st.events.append(('write', self))
        return self

    def neg(I, fr, self):
        return make_elem(fr, space_of(I, fr, self), VLin([(-1, content(self))]))

    cuts[E + 'assign'] = assign
    cuts[E + 'copy'] = copy
    cuts[E + 'set_zero'] = set_zero
    cuts[E + '__neg__'] = neg
    cuts[E + '__pos__'] = copy
    return cuts
