"""Native replay of C09 obligations (derived/<kind>): the construction is rebuilt from concrete smooth functionals (L2NormSquared, Huber, a quadratic form composed with
exp) and compared with the rule's value formula, central differences of the values (gradient and derivative) and observed gradient difference quotients
(grad_lipschitz is an upper bound)."""
import os
import sys


def _odl():
    root = os.environ.get('PYVC_REPO', '/repo')
    if root not in sys.path:
        sys.path.insert(0, root)
    import warnings
    warnings.filterwarnings('ignore')
    import odl
    import numpy as np
    return odl, np


def build(kind, odl, np, X, f, g, rng):
    S_ = odl.solvers
    t, t2, u, v = [X.element(rng.standard_normal(X.size)) for _ in range(4)]
    if kind == 'left_scalar':
        return 1.7 * f, lambda x: 1.7 * f(x)
    if kind == 'right_scalar':
        return f * (-0.6), lambda x: f(-0.6 * x)
    if kind == 'right_scalar_nested':
        return (f * 0.5) * 3.0, lambda x: f(1.5 * x)
    if kind == 'left_scalar_nested':
        return 0.5 * (3.0 * f), lambda x: 1.5 * f(x)
    if kind == 'right_vector':
        return f * v, lambda x: f(v * x)
    if kind == 'sum':
        return f + g, lambda x: f(x) + g(x)
    if kind == 'scalar_sum':
        return f + 2.5, lambda x: f(x) + 2.5
    if kind == 'translation':
        return f.translated(t), lambda x: f(x - t)
    if kind == 'translation_nested':
        return f.translated(t).translated(t2), lambda x: f(x - t - t2)
    if kind == 'comp_lin':
        A = odl.MatrixOperator(rng.standard_normal((X.size, X.size)), X, X)
        return f * A, lambda x: f(A(x))
    if kind == 'comp_nonlin':
        A = odl.PowerOperator(X, 3)
        return f * A, lambda x: f(A(x))
    if kind in ('quadpert_linbase', 'quadpert_affine_linbase'):
        lin = S_.QuadraticForm(vector=X.element(rng.standard_normal(X.size)))          # a linear functional <b, .>
        a = 0.0 if kind == 'quadpert_affine_linbase' else 0.8
        return S_.FunctionalQuadraticPerturb(lin, quadratic_coeff=a, linear_term=u, constant=1.5), lambda x: lin(x) + a * x.inner(x) + x.inner(u) + 1.5
    if kind == 'quadpert':
        return S_.FunctionalQuadraticPerturb(f, quadratic_coeff=1.5, linear_term=u, constant=0.3), lambda x: f(x) + 1.5 * x.inner(x) + x.inner(u) + 0.3
    if kind == 'quadpert_nolin':
        c = -3.0 if isinstance(g, S_.Huber) else 0.8          # also a NEGATIVE quadratic coefficient (the Lipschitz bound needs its absolute value)
        return S_.FunctionalQuadraticPerturb(f, quadratic_coeff=c), lambda x: f(x) + c * x.inner(x)
    if kind == 'product':
        return S_.FunctionalProduct(f, g), lambda x: f(x) * g(x)
    if kind == 'quotient':
        gg = g + 1.0
        return S_.FunctionalQuotient(f, gg), lambda x: f(x) / gg(x)
    if kind == 'bregman':
        p = X.element(rng.standard_normal(X.size) + 2.0)
        sg = f.gradient(p)
        return S_.BregmanDistance(f, p, sg), lambda x: f(x) - f(p) - sg.inner(x - p)
    return None, None


def replay(ob):
    info = ob.get('info') or {}
    kind = info.get('kind')
    if not ob.get('unit', '').startswith('derived/') or kind is None:
        return {'reproduced': False, 'detail': 'no native concretisation for this obligation kind'}
    odl, np = _odl()
    rng = np.random.default_rng(21)
    try:
        for X in (odl.rn(4), odl.uniform_discr(0, 2, 4)):
            S_ = odl.solvers
            pairs = [(S_.L2NormSquared(X), S_.Huber(X, 0.7)), (S_.Huber(X, 0.4), S_.L2NormSquared(X).translated(X.one()))]
            for f, g in pairs:
                h, val = build(kind, odl, np, X, f, g, rng)
                if h is None:
                    return {'reproduced': False, 'detail': 'no native concretisation for the construction %s' % kind}
                for trial in range(3):
                    x = X.element(rng.standard_normal(X.size) * (0.3 if trial == 0 else 1.5))
                    d = X.element(rng.standard_normal(X.size))
                    hv, want = float(h(x)), float(val(x))
                    if abs(hv - want) > 1e-9 * max(1.0, abs(want)):
                        return {'reproduced': True, 'detail': '%s of (%s, %s) on %r: value %r, the rule gives %r at x = %r' % (kind, type(f).__name__, type(g).__name__, X, hv, want, x.asarray())}
                    try:
                        gr = h.gradient(x)
                    except NotImplementedError:
                        continue
                    eps = 1e-6
                    fd = (float(val(x + eps * d)) - float(val(x - eps * d))) / (2 * eps)
                    gi = float(gr.inner(d))
                    dv = float(h.derivative(x)(d))
                    if abs(gi - fd) > 1e-5 * max(1.0, abs(fd)) or abs(dv - fd) > 1e-5 * max(1.0, abs(fd)):
                        return {'reproduced': True, 'detail': '%s of (%s, %s) on %r: <gradient(x), d> = %r, derivative(x)(d) = %r, central difference of the values %r (x = %r, d = %r)'
                                % (kind, type(f).__name__, type(g).__name__, X, gi, dv, fd, x.asarray(), d.asarray())}
                    L = getattr(h, 'grad_lipschitz', float('nan'))
                    if L == L and np.isfinite(L):
                        y = x + d
                        ratio = float((h.gradient(x) - h.gradient(y)).norm() / (x - y).norm())
                        if ratio > L * (1 + 1e-9) + 1e-12:
                            return {'reproduced': True, 'detail': '%s of (%s, %s) on %r: grad_lipschitz = %r but ||grad(x) - grad(y)|| / ||x - y|| = %r' % (kind, type(f).__name__, type(g).__name__, X, L, ratio)}
    except Exception as e:
        return {'reproduced': 'no_raise' in ob.get('name', ''), 'detail': 'native evaluation raised %s: %s' % (type(e).__name__, e)}
    return {'reproduced': False, 'detail': 'value, gradient, derivative and Lipschitz bound agree with the rule on the concretised instances'}
