"""Native replay for operator-arithmetic obligations (C04 overloads): concrete operators are real
`odl.Operator` subclasses defined by NumPy maps; the real overload is applied and the resulting
operator is evaluated against the algebra table computed in plain NumPy."""
import os
import sys


def _odl():
    root = os.environ.get('PYVC_REPO', '/repo')
    if root not in sys.path:
        sys.path.insert(0, root)
    import odl
    return odl


def replay_overload(ob):
    info = ob.get('info') or {}
    dunder, skind, okind, field = info.get('dunder'), info.get('self'), info.get('other'), info.get('field', 'real')
    if not dunder or not skind:
        return {'reproduced': False, 'detail': 'no native concretisation for this obligation'}
    odl = _odl()
    import numpy as np
    rng = np.random.default_rng(1)
    cplx = field == 'complex'
    mk = (lambda n: odl.cn(n)) if cplx else (lambda n: odl.rn(n))
    X, Y, Z, W = mk(3), mk(2), mk(4), mk(5)
    F = odl.ComplexNumbers() if cplx else odl.RealNumbers()

    def rnd(*shape):
        a = rng.standard_normal(shape)
        if cplx:
            a = a + 1j * rng.standard_normal(shape)
        return a

    class NpOp(odl.Operator):
        def __init__(self, dom, ran, linear):
            super(NpOp, self).__init__(dom, ran, linear=linear)
            n = 1 if isinstance(dom, odl.set.sets.Field) else dom.size
            m = 1 if isinstance(ran, odl.set.sets.Field) else ran.size
            self.M = rnd(m, n)
            self.lin = linear

        def fn(self, a):
            a = np.atleast_1d(np.asarray(a))
            r = self.M.dot(a if self.lin else a ** 2 + a)
            return r

        def _call(self, x):
            r = self.fn(x)
            if isinstance(self.range, odl.set.sets.Field):
                return complex(r[0]) if cplx else float(r[0])
            return r

    lin = skind.endswith('_lin')
    endo = skind.startswith('endo')
    fun = skind.startswith('functional')
    ran = F if fun else (X if endo else Y)
    A = NpOp(X, ran, lin)
    s0 = complex(1.5, -0.5) if cplx else 1.5
    self_op, self_fn = A, A.fn
    if skind.startswith('rsm'):
        self_op = odl.operator.operator.OperatorRightScalarMult(A, s0)
        self_fn = lambda a: A.fn(s0 * np.asarray(a))
    elif skind.startswith('lsm'):
        self_op = odl.operator.operator.OperatorLeftScalarMult(A, s0)
        self_fn = lambda a: s0 * A.fn(a)
    m = ob.get('model') or {}
    s = complex(m.get('s.re', 2.0), m.get('s.im', 0.5)) if cplx else float(m.get('s', 2.0) or 2.0)
    if s == 0:
        s = 2.0
    other = None
    ofn = None
    if okind == 'op_same':
        B = NpOp(X, ran, False)
        other, ofn = B, B.fn
    elif okind == 'op_right':
        B = NpOp(W, X, False)
        other, ofn = B, B.fn
    elif okind == 'op_left':
        B = NpOp(ran, W, False)
        other, ofn = B, B.fn
    elif okind == 'scalar':
        other = s
    elif okind == 'vec_ran':
        other = ran.element(rnd(ran.size))
    elif okind == 'vec_dom':
        other = X.element(rnd(3))
    elif okind in ('vec_for_functional',):
        other = W.element(rnd(5))
    elif okind == 'foreign':
        other = Z.element(rnd(4))
    elif okind == 'text':
        other = 'text'
    try:
        ret = getattr(self_op, dunder)(*([] if other is None else [other]))
    except Exception as e:
        return {'reproduced': 'no_raise' in ob.get('name', ''), 'detail': 'native overload raised %s: %s' % (type(e).__name__, e),
                'input': {'self': skind, 'other': okind, 'dunder': dunder}}
    if ret is NotImplemented:
        return {'reproduced': 'returns an operator' in ob.get('name', '') or 'value' in ob.get('name', ''),
                'detail': 'native overload returned NotImplemented', 'input': {'self': skind, 'other': okind, 'dunder': dunder}}
    dom = ret.domain
    xv = rnd(dom.size)
    ov = None if other is None or ofn is not None or okind == 'scalar' or okind == 'text' else np.asarray(other)
    try:
        got = np.atleast_1d(np.asarray(ret(dom.element(xv))))
    except Exception as e:
        return {'reproduced': True, 'detail': 'evaluating the returned operator raised %s: %s' % (type(e).__name__, e)}
    d = dunder
    exp = None
    try:
        if d in ('__mul__', '__matmul__'):
            if ofn is not None:
                exp = self_fn(ofn(xv))
            elif okind == 'scalar':
                exp = self_fn(s * xv)
            elif okind in ('vec_dom', 'vec_ran'):
                exp = self_fn(ov * xv)
        elif d in ('__rmul__', '__rmatmul__'):
            if ofn is not None:
                exp = ofn(self_fn(xv))
            elif okind == 'scalar':
                exp = s * self_fn(xv)
            else:
                exp = ov * self_fn(xv)
        elif d in ('__add__', '__radd__'):
            exp = self_fn(xv) + (ofn(xv) if ofn is not None else (s if okind == 'scalar' else ov))
        elif d == '__sub__':
            exp = self_fn(xv) - (ofn(xv) if ofn is not None else (s if okind == 'scalar' else ov))
        elif d == '__rsub__':
            exp = (ofn(xv) if ofn is not None else (s if okind == 'scalar' else ov)) - self_fn(xv)
        elif d == '__truediv__':
            exp = self_fn(xv / s)
        elif d == '__neg__':
            exp = -self_fn(xv)
        elif d == '__pos__':
            exp = self_fn(xv)
    except Exception as e:
        return {'reproduced': True, 'detail': 'table not evaluable (%s) but the overload returned an operator: wrong operand accepted' % e,
                'input': {'self': skind, 'other': okind, 'dunder': dunder}}
    if exp is None:
        return {'reproduced': True, 'detail': 'overload accepted an operand outside the table and returned %r' % (ret,)}
    exp = np.atleast_1d(exp)
    bad = got.shape != exp.shape or not np.allclose(got, exp, rtol=1e-9, atol=1e-9)
    return {'reproduced': bool(bad), 'detail': 'value %s vs table %s' % (got, exp),
            'input': {'self': skind, 'other': okind, 'dunder': dunder, 'x': xv.tolist() if not cplx else str(xv)}}
