"""Native replay of C07 obligations: the proximal returned by the real factory / functional is compared with the objective phi(z) + |z - x|^2 / (2 sigma) on probe
points (pointwise factories: a dense 1-d grid per component, the problem is separable; calculus rules: coordinate and segment probes around the returned point
with a concrete non-linear inner functional)."""
import os
import sys


def _odl():
    root = os.environ.get('PYVC_REPO', '/repo')
    if root not in sys.path:
        sys.path.insert(0, root)
    import warnings
    warnings.filterwarnings('ignore')
    import odl
    import numpy as np
    return odl, np


def _pointwise(info):
    odl, np = _odl()
    from odl.solvers.nonsmooth import proximal_operators as PO
    fac = info['factory']
    opts = info.get('options', {})
    rng = np.random.default_rng(4)
    n = 7
    X = odl.rn(n)
    lam, gamma = 1.3, 0.5
    g = X.element(rng.standard_normal(n)) if opts.get('g') == 'True' else None
    ga = np.zeros(n) if g is None else g.asarray()
    sig_el = opts.get('sigma') == 'elem'
    for sigma0 in (0.7, 0.05, 3.0):
        sig = X.element(sigma0 * rng.uniform(0.5, 1.5, n)) if sig_el else sigma0
        sa = sig.asarray() if sig_el else np.full(n, sigma0)
        cons = None
        if fac == 'proximal_l1':
            P = PO.proximal_l1(X, lam=lam, g=g)(sig)
            phi = lambda z: lam * np.abs(z - ga)
        elif fac == 'proximal_l2_squared':
            P = PO.proximal_l2_squared(X, lam=lam, g=g)(sig)
            phi = lambda z: lam * (z - ga) ** 2
        elif fac == 'proximal_convex_conj_l2_squared':
            P = PO.proximal_convex_conj_l2_squared(X, lam=lam, g=g)(sig)
            phi = lambda z: z * z / (4 * lam) + z * ga
        elif fac == 'proximal_convex_conj_l1':
            P = PO.proximal_convex_conj_l1(X, lam=lam, g=g)(sig)
            phi = lambda z: z * ga
            cons = lambda z: np.abs(z) <= lam + 1e-12
        elif fac == 'proximal_huber':
            P = PO.proximal_huber(X, gamma=gamma)(sig)
            phi = lambda z: np.where(np.abs(z) <= gamma, z * z / (2 * gamma), np.abs(z) - gamma / 2)
        elif fac == 'proximal_const_func':
            P = PO.proximal_const_func(X)(sig)
            phi = lambda z: 0 * z
        elif fac == 'proximal_box_constraint':
            lo, up = eval(opts.get('extra', '(None, None)'))
            lov = None if lo is None else (-0.5 if lo == 'scalar' else X.element(-np.abs(rng.standard_normal(n))))
            upv = None if up is None else (0.8 if up == 'scalar' else X.element(np.abs(rng.standard_normal(n))))
            P = PO.proximal_box_constraint(X, lower=lov, upper=upv)(sig)
            la = -np.inf * np.ones(n) if lov is None else (np.full(n, lov) if np.isscalar(lov) else lov.asarray())
            ua = np.inf * np.ones(n) if upv is None else (np.full(n, upv) if np.isscalar(upv) else upv.asarray())
            phi = lambda z: 0 * z
            cons = lambda z: (z >= la - 1e-12) & (z <= ua + 1e-12)
        else:
            return None, 'no native concretisation for factory %s' % fac
        for scale in (1.0, 0.3, 4.0):
            xa = rng.standard_normal(n) * scale
            # make sure the kinks / thresholds are visited
            xa[0] = ga[0] + 0.5 * sa[0] * lam
            xa[1] = gamma + 0.5 * sa[1]
            xa[2] = -(gamma + 0.5 * sa[2])
            x = X.element(xa.copy())
            p = P(x).asarray()
            J = lambda z: phi(z) + (z - xa) ** 2 / (2 * sa)
            if cons is not None and not np.all(cons(p)):
                return 'the returned point violates the constraint: p = %r' % (p,), None
            Jp = J(p)
            for t in np.concatenate([np.linspace(-6, 6, 241), p, xa, ga]):
                z = np.full(n, t) if np.isscalar(t) or np.ndim(t) == 0 else t
                Jz = J(z)
                ok = Jz >= Jp - 1e-9
                if cons is not None:
                    ok = ok | ~cons(z)
                if not np.all(ok):
                    i = int(np.argmin(ok))
                    return ('%s%s(sigma=%r): component %d of the result for x_i = %r is p_i = %r with objective %r, but z = %r gives %r'
                            % (fac, {k: v for k, v in opts.items()}, sa[i], i, xa[i], p[i], Jp[i], z[i], Jz[i])), None
    return None, None


def _calculus(info):
    odl, np = _odl()
    kind = info['kind']
    rng = np.random.default_rng(9)
    X = odl.rn(4)
    S_ = odl.solvers
    for f in (S_.L1Norm(X), S_.L2Norm(X), S_.Huber(X, 0.6)):
        t = X.element(rng.standard_normal(4))
        u = X.element(rng.standard_normal(4))
        if kind == 'left_scalar':
            h = 1.7 * f
        elif kind == 'right_scalar':
            h = f * (-1.6)
        elif kind == 'translation':
            h = f.translated(t)
        elif kind == 'scalar_sum':
            h = f + 2.5
        elif kind == 'quadpert':
            h = S_.FunctionalQuadraticPerturb(f, quadratic_coeff=1.5, linear_term=u, constant=0.3)
        elif kind == 'quadpert_nolin':
            h = S_.FunctionalQuadraticPerturb(f, quadratic_coeff=0.8)
        elif kind == 'scaled_translated':
            h = 2.2 * f.translated(t)
        elif kind == 'bregman':
            if not hasattr(f, 'gradient') or isinstance(f, S_.L1Norm):
                continue
            pnt = X.element(rng.standard_normal(4) + 3.0)
            h = S_.BregmanDistance(f, pnt, f.gradient(pnt))
        else:
            return None, 'no native concretisation for calculus rule %s (conjugates take infinite values)' % kind
        for sigma in (0.6, 2.0):
            x = X.element(rng.standard_normal(4) * 2)
            try:
                p = h.proximal(sigma)(x)
            except Exception as e:
                return None, 'native evaluation raised %s: %s' % (type(e).__name__, e)
            J = lambda z: float(h(z)) + float((z - x).norm() ** 2) / (2 * sigma)
            Jp = J(p)
            probes = [x, p * 0, t, u]
            for i in range(4):
                for d in (1e-3, 1e-2, 0.1, 0.5):
                    for sgn in (1, -1):
                        e = np.zeros(4)
                        e[i] = sgn * d
                        probes.append(p + X.element(e))
            for q in list(probes[:4]):
                for s in (0.01, 0.1, 0.5):
                    probes.append(p + s * (q - p))
            for z in probes:
                Jz = J(z)
                if Jz < Jp - 1e-9 * max(1.0, abs(Jp)):
                    return ('%s with f = %s, sigma = %r: proximal(x) = %r has objective %r, but z = %r gives %r (x = %r)'
                            % (kind, type(f).__name__, sigma, p.asarray(), Jp, z.asarray(), Jz, x.asarray())), None
    return None, None


def replay(ob):
    info = ob.get('info') or {}
    try:
        if 'factory' in info and ob.get('unit', '').startswith('pointwise/'):
            bad, note = _pointwise(info)
        elif 'kind' in info and ob.get('unit', '').startswith('calculus/'):
            bad, note = _calculus(info)
        else:
            return {'reproduced': False, 'detail': 'no native concretisation for this obligation kind'}
    except Exception as e:
        return {'reproduced': False, 'detail': 'replay harness error: %r' % (e,)}
    if 'no_raise' in ob.get('name', ''):
        return {'reproduced': False, 'detail': note or 'does not raise natively on the concretised inputs'}
    return {'reproduced': bool(bad), 'detail': bad or note or 'the returned point minimises the objective on all probes'}
