"""Native replay for C02 obligations: documented weighted sums recomputed in plain NumPy."""
import os
import sys


def replay(ob):
    rp = ob.get('replay') or {}
    root = os.environ.get('PYVC_REPO', '/repo')
    if root not in sys.path:
        sys.path.insert(0, root)
    import numpy as np
    import odl
    rng = np.random.default_rng(2)
    unit = ob.get('unit', '')
    if not rp.get('kind') and unit.startswith('discr/') and unit.split('/')[1] in ('_inner', '_norm', '_dist'):
        rp = {'kind': 'discr', 'method': unit.split('/')[1]}
    if unit.startswith('pspace-weighting/'):
        cfg = ob.get('config') or {}
        kind, field, p = cfg.get('weighting'), cfg.get('field'), cfg.get('exponent')
        base = odl.cn(3) if field == 'complex' else (odl.tensor_space(3, dtype=int) if field == 'int' else odl.rn(3))
        w = np.array([0.5, 2.0, 3.0])
        sp = odl.ProductSpace(base, 3, weighting=(w if kind == 'array' else 1.7), exponent=p)
        wv = w if kind == 'array' else np.full(3, 1.7)

        def rnd():
            if field == 'int':
                return sp.element([rng.integers(-4, 5, 3) for _ in range(3)])
            return sp.element([rng.standard_normal(3) + (1j * rng.standard_normal(3) if field == 'complex' else 0) for _ in range(3)])
        x, y = rnd(), rnd()
        problems = []
        if p == 2.0:
            want = sum(wv[i] * np.vdot(y[i].asarray(), x[i].asarray()) for i in range(3))
            got = x.inner(y)
            if abs(got - want) > 1e-9 * max(1.0, abs(want)):
                problems.append('inner on %r: %r, expected sum_i w_i <x_i, y_i> = %r' % (sp, got, want))
        ns = np.array([np.linalg.norm(x[i].asarray()) for i in range(3)])
        ds = np.array([np.linalg.norm((x[i] - y[i]).asarray()) for i in range(3)])
        if p == 2.0:
            wn, wd = np.sqrt(np.sum(wv * ns ** 2)), np.sqrt(np.sum(wv * ds ** 2))
        elif p == 1.0:
            wn, wd = np.sum(wv * ns), np.sum(wv * ds)
        else:
            wn, wd = np.max(wv * ns), np.max(wv * ds)
        if abs(x.norm() - wn) > 1e-9 * max(1.0, wn):
            problems.append('norm on %r: %r, expected %r' % (sp, x.norm(), wn))
        if kind == 'const' and abs(x.dist(y) - wd) > 1e-9 * max(1.0, wd):
            problems.append('dist on %r: %r, expected %r' % (sp, x.dist(y), wd))
        return {'reproduced': bool(problems), 'detail': '; '.join(problems[:2]) or 'documented weighted sums hold natively'}
    if rp.get('kind') == 'inner':
        dt = rp['dtype']
        problems = []
        for shape in ((7,), (60, 70), (230, 250)):
            for order in ('C', 'F'):
                sp = odl.tensor_space(shape, dtype=dt)
                a = rng.standard_normal(shape) + (1j * rng.standard_normal(shape) if 'complex' in dt else 0)
                b = rng.standard_normal(shape) + (1j * rng.standard_normal(shape) if 'complex' in dt else 0)
                x = sp.element(np.asarray(a, dtype=dt, order=order))
                y = sp.element(np.asarray(b, dtype=dt, order=order))
                from odl.space.npy_tensors import _inner_default
                got = _inner_default(x, y)
                want = np.sum(x.asarray().astype(complex) * np.conj(y.asarray().astype(complex)))
                if abs(got - want) > 1e-4 * max(1.0, abs(want)):
                    problems.append('shape %s order %s: %r vs SUM(x conj y) = %r' % (shape, order, got, want))
        return {'reproduced': bool(problems), 'detail': '; '.join(problems[:3]) or 'closed form holds natively'}
    if rp.get('kind') == 'discr':
        problems = []
        spaces = []
        for nob in ((True, False), (False, True), True, (True, True)):
            for shape in ((4,), (3, 4)):
                spaces.append((shape, odl.uniform_discr([0] * len(shape), [1] * len(shape), shape, nodes_on_bdry=[nob] * len(shape) if len(shape) > 1 else nob)))
        # uniform grids whose outermost nodes are NOT on the boundary and whose margins are not half a cell (boundary fractions 1.5, 1.0 / 2.5 ...)
        spaces.append(((3, 5), odl.uniform_discr_frompartition(odl.RectPartition(odl.IntervalProd([0, 0], [1, 2]), odl.uniform_grid([0.25, 0.5], [0.75, 1.5], (3, 5))))))
        spaces.append(((4,), odl.uniform_discr_frompartition(odl.RectPartition(odl.IntervalProd(0, 2), odl.uniform_grid(0.5, 1.25, 4)))))
        for shape, sp in spaces:
            if True:
                x = sp.element(rng.standard_normal(shape))
                y = sp.element(rng.standard_normal(shape))
                w = np.ones(shape)
                for ax, (fl, fr) in enumerate(sp.partition.boundary_cell_fractions):
                    sl = [slice(None)] * len(shape)
                    sl[ax] = 0
                    w[tuple(sl)] *= fl
                    sl[ax] = -1
                    w[tuple(sl)] *= fr
                cv = sp.cell_volume
                checks = {'_inner': (sp.inner(x, y), cv * np.sum(w * x.asarray() * y.asarray())),
                          '_norm': (sp.norm(x), np.sqrt(cv * np.sum(w * x.asarray() ** 2))),
                          '_dist': (sp.dist(x, y), np.sqrt(cv * np.sum(w * (x.asarray() - y.asarray()) ** 2)))}
                got, want = checks[rp['method']]
                if abs(got - want) > 1e-9 * max(1.0, abs(want)):
                    problems.append('%s on %r: %r vs boundary-weighted quadrature %r' % (rp['method'], sp, got, want))
        return {'reproduced': bool(problems), 'detail': '; '.join(problems[:2]) or 'quadrature holds natively'}
    return {'reproduced': False, 'detail': 'no native concretisation for this obligation kind'}
