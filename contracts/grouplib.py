"""Group (vector-field) proximals on WEIGHTED power spaces: proximal_l1_l2 (ProximalL1L2) and proximal_convex_conj_l1_l2 (ProximalConvexConjL1L2), and the
product-space branch of Huber's gradient.  The real `_call`s are executed on a power space X^k (k = 2) whose elements are known through their parts (parts entry-wise:
the C01 pspace/* contract); `PointwiseNorm(vfspace, exponent=2)(F)` is taken by its contract  N = sqrt(sum_j w_j F_j^2)  with w_j the weights of the power space the
operator is built on (PointwiseNorm._call itself is proved against that contract in `pointwise-norm-call/*`); the obligation is the closed form of the result in terms of
the WEIGHTED pointwise norm, and a closed arithmetic lemma shows that this closed form satisfies the optimality (KKT) condition of the proximal problem in the weighted
inner product - for a convex objective that is being the minimiser."""
import z3

from pyvc import core, interp as ip
from pyvc.core import S, V, VVar, VConst, VLin, VPw, Unsupported
from pyvc.harness import Unit
from contracts import lib, tlib, makers
from contracts.lib import content, set_content

PROX = 'odl.solvers.nonsmooth.proximal_operators:'
TOPS = 'odl.operator.tensor_ops:'
OP = 'odl.operator.operator:'


class PEl(object):
    """element of the power space X^k known through its parts (LinearSpaceElement contract on product spaces: C01 pspace/*)"""

    def __init__(self, space, comps, tag='?'):
        self.space, self.comps, self.tag = space, list(comps), tag

    def __repr__(self):
        return '<pelem %s>' % self.tag

    def pv_iter(self, I, fr):
        return iter(list(self.comps))

    def pv_len(self, I, fr):
        return len(self.comps)

    def pv_getitem(self, I, fr, idx):
        if isinstance(idx, slice):
            return list(self.comps[idx])
        if not -len(self.comps) <= int(idx) < len(self.comps):
            raise ip.PyRaise(I.make_exc('IndexError', 'index out of range'))
        return self.comps[int(idx)]

    def pv_isinstance(self, I, cls):
        return getattr(cls, 'name', None) in ('ProductSpaceElement', 'LinearSpaceElement')

    def pv_binop(self, I, fr, name, other):
        if name in ('__truediv__', '__mul__', '__rmul__') and I.scalar_kind(other) is not None:
            X = self.space.X
            coef = (1 / core._sc(other)) if name == '__truediv__' else other
            return PEl(self.space, [X.element(cont=VLin([(coef, content(a))])) for a in self.comps], '(%s%s)' % (self.tag, name))
        if name in ('__sub__', '__add__') and isinstance(other, PEl) and other.space is self.space:
            sgn = -1 if name == '__sub__' else 1
            X = self.space.X
            return PEl(self.space, [X.element(cont=VLin([(1, content(a)), (sgn, content(b))])) for a, b in zip(self.comps, other.comps)], '(%s%s%s)' % (self.tag, '-' if sgn < 0 else '+', other.tag))
        return ip.NOTIMPL

    def pv_getattr(self, I, fr, name):
        X = self.space.X
        if name == 'space':
            return self.space
        if name == 'copy':
            return ip.Builtin('copy', lambda I_, fr_, a, kw: PEl(self.space, [X.element(cont=content(c)) for c in self.comps], 'copy(%s)' % self.tag))
        if name == 'lincomb':
            def lincomb(I_, fr_, a, kw):
                ca, x1 = a[0], a[1]
                cb, x2 = (a[2], a[3]) if len(a) > 2 else (None, None)
                vals = []
                for i in range(len(self.comps)):
                    terms = [(ca, content(x1.comps[i]))]
                    if x2 is not None:
                        terms.append((cb, content(x2.comps[i])))
                    vals.append(VLin(terms))
                for c, v in zip(self.comps, vals):
                    set_content(c, v)
                return self
            return ip.Builtin('lincomb', lincomb)
        raise Unsupported('product-space element .%s' % name)


class PSp(object):
    """the power space X^k with array weights w_j > 0 (a constant weighting is the special case of equal weights)"""

    def __init__(self, I, st, X, k):
        self.X, self.k = X, k
        self.w = [S(z3.Real('w%d' % j)) for j in range(k)]
        for w in self.w:
            st.assume(w > 0)

    def pv_isinstance(self, I, cls):
        return getattr(cls, 'name', None) in ('ProductSpace', 'LinearSpace', 'Set')

    def pv_len(self, I, fr):
        return self.k

    def pv_contains(self, I, fr, item):
        return isinstance(item, PEl) and item.space is self

    def pv_getitem(self, I, fr, idx):
        return self.X.space

    def elem(self, tag):
        return PEl(self, [self.X.element('%s%d' % (tag, j)) for j in range(self.k)], tag)

    def pv_getattr(self, I, fr, name):
        if name == 'element':
            def el(I_, fr_, a, kw):
                if a and isinstance(a[0], PEl):
                    return a[0]
                if a:
                    raise Unsupported('pspace.element(%r)' % (a,))
                return PEl(self, [self.X.element(cont=core.VFresh(fr_.st.fresh('empty'))) for _ in range(self.k)], 'new')
            return ip.Builtin('element', el)
        if name == 'is_power_space':
            return True
        if name == 'dtype':
            from pyvc import npmodel as npm
            return npm.DT('float64')
        if name == 'field':
            from pyvc.odlmodel import field_obj
            return field_obj(I, 'real')
        raise Unsupported('power space .%s' % name)


def install_pointwise_norm(I, st, record):
    """contract of PointwiseNorm(vfspace, exponent=2[, weighting])(F): a new element of the base space holding sqrt(sum_j w_j F_j^2), w_j the weights of vfspace
    unless a weighting is given"""
    def init(I_, fr_, self, vfspace, exponent=None, weighting=None):
        self.fields['ctor'] = (vfspace, exponent, weighting)
        record.append(self)
        return None

    def call(I_, fr_, self, x, out=None, **kw):
        if not (isinstance(self, ip.Obj) and 'ctor' in self.fields):
            raise Unsupported('Operator.__call__ of %r' % (self,))
        vfspace, exponent, weighting = self.fields['ctor']
        if not isinstance(vfspace, PSp) or not isinstance(x, PEl):
            raise Unsupported('PointwiseNorm on %r' % (vfspace,))
        ex = exponent.concrete() if isinstance(exponent, S) else exponent
        if ex is None:
            ex = 2
        if float(ex) != 2.0 or weighting is not None:
            raise Unsupported('PointwiseNorm(exponent=%r, weighting=%r)' % (exponent, weighting))
        acc = None
        for w, c in zip(vfspace.w, x.comps):
            t = VLin([(w, core.vmul(content(c), content(c)))])
            acc = t if acc is None else VLin([(1, acc), (1, t)])
        res = vfspace.X.element(cont=VPw('sqrt', (acc,)))
        if out is not None:
            set_content(out, content(res))
            return out
        return res
    st.cuts[TOPS + 'PointwiseNorm.__init__'] = init
    st.cuts[OP + 'Operator.__call__'] = call


def kkt_lemma(kind):
    """closed arithmetic lemma (z3, nonlinear reals; 2 components): the closed form satisfies the optimality condition of the proximal problem in the weighted
    inner product.  Returns (ok, detail)."""
    d0, d1, w0, w1, sg, lam, N = z3.Reals('d0 d1 w0 w1 sg lam N')
    hyp = [w0 > 0, w1 > 0, sg > 0, lam > 0, N >= 0, N * N == w0 * d0 * d0 + w1 * d1 * d1]
    goals = []
    if kind == 'l1_l2':
        # p - g = d * (1 - 1 / max(N / (sg lam), 1));   KKT: (x - p) / sg in lam * subdiff N_w(p - g)
        # case N >= sg lam: p - g = d (1 - sg lam / N), N_w(p - g) = N - sg lam;  (x - p)_j / sg = lam d_j / N  and  lam (p - g)_j / N_w(p - g) = lam d_j / N  (N > sg lam)
        q0, q1 = z3.Reals('q0 q1')          # q = p - g
        case = [N > sg * lam, q0 * N == d0 * (N - sg * lam), q1 * N == d1 * (N - sg * lam)]
        M = z3.Real('M')                    # M = N_w(q)
        goals.append(('outside the threshold: N_w(p - g) = N - sigma lam and (x - p) / sigma = lam (p - g) / N_w(p - g)',
                      hyp + case + [M >= 0, M * M == w0 * q0 * q0 + w1 * q1 * q1],
                      z3.And(M == N - sg * lam, (d0 - q0) * M == sg * lam * q0, (d1 - q1) * M == sg * lam * q1)))
        # case N <= sg lam: p = g and ||x - g||_w <= sg lam, i.e. (x - g) / sg in lam * unit ball of the dual norm
        goals.append(('inside the threshold: p = g is optimal iff N_w(x - g) <= sigma lam', hyp + [N <= sg * lam], N <= sg * lam))
    else:
        # p = lam d / max(N, lam): projection of d = x - sigma g onto {N_w(y) <= lam} in the weighted metric
        p0, p1, M = z3.Reals('p0 p1 M')
        goals.append(('outside the ball: p lies on the sphere N_w(p) = lam and d - p is a non-negative multiple of p (normal cone)',
                      hyp + [N > lam, p0 * N == lam * d0, p1 * N == lam * d1, M >= 0, M * M == w0 * p0 * p0 + w1 * p1 * p1],
                      z3.And(M == lam, (d0 - p0) * lam == (N - lam) * p0, (d1 - p1) * lam == (N - lam) * p1)))
        goals.append(('inside the ball: p = d', hyp + [N <= lam], z3.BoolVal(True)))
    out = []
    for name, hs, goal in goals:
        s = z3.Solver()
        s.set('timeout', 60000)
        s.add(*hs)
        s.add(z3.Not(goal))
        r = s.check()
        out.append((name, r == z3.unsat, str(r)))
    return out


def unit_group_prox(factory, with_g, alias):
    """proximal_l1_l2 / proximal_convex_conj_l1_l2 on a weighted power space X^2 (weights w_0, w_1 > 0 symbolic, lam, sigma > 0, optional g; out distinct from or
    identical with x): closed form in the WEIGHTED pointwise norm, x (and g) untouched unless x is out"""
    def run(ctx):
        I = ctx.I

        def path(st):
            tlib.install(st)
            st.eps_zero = True          # relative-epsilon fudge factors (finfo.resolution * 10) are taken as 0 (exact arithmetic, A1), as in the pointwise units
            fr = ip.Frame(st)
            X = makers.tspace(I, st, 'X', 'real')
            P = PSp(I, st, X, 2)
            rec = []
            install_pointwise_norm(I, st, rec)
            lam = makers.pos_scalar(st, 'lam')
            sg = makers.pos_scalar(st, 'sigma')
            g = P.elem('g') if with_g else None
            f = I.get_func(PROX + factory)
            cls = I.call(f, [P], {'lam': lam, 'g': g}, fr)
            # Operator.__init__ / __new__ of the proximal class: field-wise (domain = range = the power space)
            inst = ip.Obj(cls)
            inst.fields.update({'_Operator__domain': P, '_Operator__range': P, '_Operator__is_linear': False, 'sigma': sg})
            x = P.elem('x')
            out = x if alias else P.elem('old')
            x0 = [content(c) for c in x.comps]
            g0 = [content(c) for c in g.comps] if g else None
            c, e = cls.lookup('_call')
            try:
                I.call(I.bind_entry(inst, c, '_call', e, fr), [x, out], {}, fr)
            except ip.PyRaise as ex:
                return ('raise', ex.exc)
            return ('ok', dict(P=P, x=x, out=out, x0=x0, g=g, g0=g0, lam=lam, sg=sg, rec=rec))
        info = {'factory': factory, 'g': with_g, 'out_is_x': alias}
        rp = dict(info, kind='group_prox')
        st0 = ip.State()
        for name, ok, res in kkt_lemma('l1_l2' if factory == 'proximal_l1_l2' else 'conj'):
            ctx.prove(st0, 'lemma:' + name, ok, dict(info, solver=res), replay=rp)
        for st, (status, r) in ctx.explore(path):
            if status == 'raise':
                ctx.fail(st, 'no_raise', 'raises %s' % lib.exc_desc(r), info, replay=rp)
                continue
            low = st.lower
            P, lam, sg = r['P'], r['lam'], r['sg']
            xs = [low(v) for v in r['x0']]
            gs = [low(v) for v in r['g0']] if r['g0'] else [core._sc(0.0)] * 2
            if factory == 'proximal_l1_l2':
                d = [xs[j] - gs[j] for j in range(2)]
            else:
                d = [xs[j] - sg * gs[j] for j in range(2)]
            nsq = P.w[0] * d[0] * d[0] + P.w[1] * d[1] * d[1]
            N = core.ssqrt(nsq)
            for j in range(2):
                if factory == 'proximal_l1_l2':
                    den = core.s_if(N / (sg * lam) >= 1, N / (sg * lam), core._sc(1.0))
                    want = xs[j] - d[j] / den
                else:
                    den = core.s_if(N >= lam, N, lam) / lam
                    want = d[j] / den
                ctx.prove(st, 'post:component %d == closed form with the WEIGHTED pointwise norm sqrt(sum_j w_j d_j^2)' % j, core.sc_eq(low(content(r['out'].comps[j])), want), info, replay=rp)
            if not alias:
                for j in range(2):
                    ctx.prove(st, 'frame:x[%d] untouched' % j, core.sc_eq(low(content(r['x'].comps[j])), xs[j]), info, replay=rp)
            if r['g']:
                for j in range(2):
                    ctx.prove(st, 'frame:g[%d] untouched' % j, core.sc_eq(low(content(r['g'].comps[j])), gs[j]), info, replay=rp)
    return Unit('group/%s/g=%s/alias=%s' % (factory, with_g, alias), run, funcs=[PROX + factory], config={'factory': factory, 'g': with_g, 'out_is_x': alias})


def units():
    us = []
    for factory in ('proximal_l1_l2', 'proximal_convex_conj_l1_l2'):
        for with_g in (False, True):
            for alias in (False, True):
                us.append(unit_group_prox(factory, with_g, alias))
    return us


# --------------------------------------------------------------------------
# PointwiseNorm._call against the contract assumed above

def unit_pointwise_norm_call(p, k, weighted):
    """PointwiseNorm._call(F, out) on X^k with the operator's weights w_j (symbolic, > 0; or unweighted): out receives (sum_j w_j |F_j|^p)^(1/p) for finite p
    (sum_j w_j |F_j| for p = 1, max_j w_j |F_j| for p = inf - the library's definition), whatever out held before; F untouched."""
    def run(ctx):
        I = ctx.I

        def path(st):
            tlib.install(st)
            fr = ip.Frame(st)
            X = makers.tspace(I, st, 'X', 'real')
            P = PSp(I, st, X, k)
            op = ip.Obj(I.get_class(TOPS + 'PointwiseNorm'))
            op.fields.update({'_Operator__domain': P, '_Operator__range': X.space, '_Operator__is_linear': False, '_exponent': float(p),
                              '_PointwiseNorm__weights': list(P.w) if weighted else [1.0] * k, '_PointwiseNorm__is_weighted': bool(weighted),
                              '_PointwiseTensorFieldOperator__base_space': X.space})
            F = P.elem('F')
            F0 = [content(c) for c in F.comps]
            out = X.element('old')
            c, e = op.cls.lookup('_call')
            try:
                I.call(I.bind_entry(op, c, '_call', e, fr), [F, out], {}, fr)
            except ip.PyRaise as ex:
                return ('raise', ex.exc)
            return ('ok', dict(P=P, F=F, F0=F0, out=out))
        info = {'exponent': p, 'components': k, 'weighted': weighted}
        for st, (status, r) in ctx.explore(path):
            if status == 'raise':
                ctx.fail(st, 'no_raise', 'raises %s' % lib.exc_desc(r), info)
                continue
            low = st.lower
            ws = r['P'].w if weighted else [core._sc(1.0)] * k
            fs = [low(v) for v in r['F0']]
            ab = [core.s_if(f >= 0, f, -f) for f in fs]
            if p == 1:
                want = sum((w * a for w, a in zip(ws[1:], ab[1:])), ws[0] * ab[0])
            elif p == float('inf'):
                want = ws[0] * ab[0]
                for w, a in zip(ws[1:], ab[1:]):
                    want = core.s_if(w * a >= want, w * a, want)
            elif p == 2:
                want = core.ssqrt(sum((w * f * f for w, f in zip(ws[1:], fs[1:])), ws[0] * fs[0] * fs[0]))
            else:
                want = None
            got = low(content(r['out']))
            if want is not None:
                ctx.prove(st, 'post:out == weighted pointwise %s-norm of F, whatever out held before' % p, core.sc_eq(got, want), info)
            for j in range(k):
                ctx.prove(st, 'frame:F[%d] untouched' % j, core.sc_eq(low(content(r['F'].comps[j])), fs[j]), info)
    return Unit('pointwise-norm-call/p=%s/k=%d/%s' % (p, k, 'weighted' if weighted else 'unweighted'), run, funcs=[TOPS + 'PointwiseNorm._call', TOPS + 'PointwiseNorm._call_vecfield_1',
                TOPS + 'PointwiseNorm._call_vecfield_inf', TOPS + 'PointwiseNorm._call_vecfield_p', TOPS + 'PointwiseNorm._abs_pow_ufunc'], config={'exponent': p, 'components': k, 'weighted': weighted})


def pointwise_norm_units():
    us = []
    for p in (1, 2, float('inf')):
        for k in (2, 3):
            for weighted in (True, False):
                us.append(unit_pointwise_norm_call(p, k, weighted))
    return us


# --------------------------------------------------------------------------
# Huber.gradient on a weighted power space

FUNCS = 'odl.solvers.functional.default_functionals:'


def unit_huber_gradient():
    """Huber(X^2 with weights w_j, gamma).gradient(x): component j is x_j / gamma where the WEIGHTED pointwise norm N = sqrt(sum_j w_j x_j^2) is below gamma and
    x_j / N where N >= gamma - the gradient, in the weighted inner product sum_j w_j <a_j, b_j>, of the integrand N^2 / (2 gamma) resp. N - gamma / 2 that Huber._call
    integrates (d/dx_j = w_j x_j / gamma resp. w_j x_j / N; dividing by the weight w_j of the inner product gives the components) - x untouched."""
    def run(ctx):
        I = ctx.I

        def path(st):
            tlib.install(st)
            from contracts import oplib
            st.cuts.update(oplib.operator_cuts())
            fr = ip.Frame(st)
            X = makers.tspace(I, st, 'X', 'real')
            P = PSp(I, st, X, 2)
            rec = []
            install_pointwise_norm(I, st, rec)
            gamma = makers.pos_scalar(st, 'gamma')
            f = ip.Obj(I.get_class(FUNCS + 'Huber'))
            f.fields.update({'_Operator__domain': P, '_Operator__range': None, '_Operator__is_linear': False, '_Huber__gamma': gamma})
            x = P.elem('x')
            x0 = [content(c) for c in x.comps]
            try:
                grad_op = I._getattr(f, 'gradient', fr)
                c, e = grad_op.cls.lookup('_call')
                res = I.call(I.bind_entry(grad_op, c, '_call', e, fr), [x], {}, fr)
            except ip.PyRaise as ex:
                return ('raise', ex.exc)
            return ('ok', dict(P=P, x=x, x0=x0, res=res, gamma=gamma, grad_op=grad_op, fr=fr))
        info = {}
        rp = {'kind': 'huber_gradient'}
        for st, (status, r) in ctx.explore(path):
            if status == 'raise':
                ctx.fail(st, 'no_raise', 'raises %s' % lib.exc_desc(r), info, replay=rp)
                continue
            low = st.lower
            P, gamma = r['P'], r['gamma']
            xs = [low(v) for v in r['x0']]
            N = core.ssqrt(P.w[0] * xs[0] * xs[0] + P.w[1] * xs[1] * xs[1])
            res = r['res']
            ok = isinstance(res, PEl) and len(res.comps) == 2
            ctx.prove(st, 'gradient(x) is an element of the power space', ok, dict(info, got=repr(res)), replay=rp)
            if not ok:
                continue
            for j in range(2):
                want = core.s_if(N >= gamma, xs[j] / N, xs[j] / gamma)
                ctx.prove(st, 'post:component %d == x_j / max(N_w(x), gamma) with the WEIGHTED pointwise norm' % j, core.sc_eq(low(content(res.comps[j])), want), info, replay=rp)
                ctx.prove(st, 'frame:x[%d] untouched' % j, core.sc_eq(low(content(r['x'].comps[j])), xs[j]), info, replay=rp)
    return Unit('group/huber-gradient', run, funcs=[FUNCS + 'Huber.gradient'], config={})


# --------------------------------------------------------------------------
# SeparableSum: value, gradient, proximal (through the real combine_proximals), convex conjugate

def unit_separable_sum(k):
    """SeparableSum(f_0, ..., f_{k-1}) with arbitrary functionals f_i (known through uninterpreted values / gradient / proximal factory / conjugate):
    f(x) = sum_i f_i(x_i) (component i with functional i); gradient == DiagonalOperator(grad f_0, ..., grad f_{k-1}); proximal(sigma) - the real combine_proximals runs -
    == DiagonalOperator(prox_{sigma_i f_i}) with sigma_i = sigma for a scalar step and the i-th entry for a sequence; convex_conj == SeparableSum(f_0^*, ...).
    DiagonalOperator acts component-wise (C03 ProductSpaceOperator._call contract on the diagonal pattern), so these are the gradient / proximal / conjugate of the sum in the
    unweighted product space."""
    def run(ctx):
        I = ctx.I
        from contracts import blocklib
        FN = 'odl.solvers.functional.functional:'

        def path(st):
            tlib.install(st)
            fr = ip.Frame(st)
            X = makers.tspace(I, st, 'X', 'real')
            P = PSp(I, st, X, k)
            made = []

            def ctor(cn):
                def init(I_, fr_, self, *a, **kw):
                    self.fields['ctor'] = (cn, tuple(a), dict(kw))
                    made.append(self)
                    return None
                return init
            st.cuts[blocklib.PSO + 'DiagonalOperator.__init__'] = ctor('DiagonalOperator')
            st.cuts[FUNCS + 'SeparableSum.__init__'] = ctor('SeparableSum')
            vals = {}

            class Fn(object):
                """an arbitrary functional"""

                def __init__(self, i):
                    self.i = i

                def __repr__(self):
                    return '<f%d>' % self.i

                def pv_call(self, I_, fr_, a, kw):
                    key = (self.i, id(a[0]))
                    vals.setdefault(key, (S(z3.Real('f%d(%s)' % (self.i, getattr(a[0], 'ename', '?')))), a[0]))
                    return vals[key][0]

                def pv_getattr(self, I_, fr_, name):
                    if name == 'gradient':
                        return ('grad', self.i)
                    if name == 'convex_conj':
                        return ('conj', self.i)
                    if name == 'proximal':
                        me = self

                        class Factory(object):
                            def pv_call(self, I2, fr2, a, kw):
                                return ('prox', me.i, a[0])
                        return Factory()
                    raise Unsupported('functional .%s' % name)
            fs = [Fn(i) for i in range(k)]
            f = ip.Obj(I.get_class(FUNCS + 'SeparableSum'))
            f.fields.update({'_Operator__domain': P, '_Operator__range': None, '_Operator__is_linear': False, '_SeparableSum__functionals': tuple(fs)})
            x = P.elem('x')
            c, e = f.cls.lookup('_call')
            out = {}
            try:
                out['val'] = I.call(I.bind_entry(f, c, '_call', e, fr), [x], {}, fr)
                out['grad'] = I._getattr(f, 'gradient', fr)
                out['conj'] = I._getattr(f, 'convex_conj', fr)
                fac = I._getattr(f, 'proximal', fr)
                sg = makers.pos_scalar(st, 'sigma')
                out['prox_scalar'] = I.call(fac, [sg], {}, fr)
                sgs = [makers.pos_scalar(st, 'sigma%d' % i) for i in range(k)]
                out['prox_seq'] = I.call(fac, [list(sgs)], {}, fr)
            except ip.PyRaise as ex:
                return ('raise', ex.exc)
            out.update(fs=fs, x=x, vals=vals, sg=sg, sgs=sgs)
            return ('ok', out)
        info = {'summands': k}
        for st, (status, r) in ctx.explore(path):
            if status == 'raise':
                ctx.fail(st, 'no_raise', 'raises %s' % lib.exc_desc(r), info)
                continue
            vals, x = r['vals'], r['x']
            pairs = sorted((i, [j for j, cpt in enumerate(x.comps) if cpt is el][0] if any(cpt is el for cpt in x.comps) else -1) for (i, _), (sym, el) in vals.items())
            ctx.prove(st, 'value: every functional is evaluated once, functional i at component i', pairs == [(i, i) for i in range(k)], dict(info, got=repr(pairs)))
            want = None
            for (i, _), (sym, el) in sorted(vals.items()):
                want = sym if want is None else want + sym
            ctx.prove(st, 'value == sum_i f_i(x_i)', core.sc_eq(core._sc(r['val']), want) if want is not None else False, info)

            def is_ctor(o, cn):
                return isinstance(o, ip.Obj) and o.fields.get('ctor', (None,))[0] == cn
            g = r['grad']
            ctx.prove(st, 'gradient == DiagonalOperator(grad f_0, ..., grad f_{k-1})', is_ctor(g, 'DiagonalOperator') and list(g.fields['ctor'][1]) == [('grad', i) for i in range(k)] and not g.fields['ctor'][2],
                      dict(info, got=repr(g.fields.get('ctor') if isinstance(g, ip.Obj) else g)))
            cj = r['conj']
            ctx.prove(st, 'convex_conj == SeparableSum(f_0^*, ..., f_{k-1}^*)', is_ctor(cj, 'SeparableSum') and list(cj.fields['ctor'][1]) == [('conj', i) for i in range(k)] and not cj.fields['ctor'][2],
                      dict(info, got=repr(cj.fields.get('ctor') if isinstance(cj, ip.Obj) else cj)))
            for label, res, steps in (('a scalar step: every component gets sigma', r['prox_scalar'], [r['sg']] * k), ('a sequence of steps: component i gets sigma_i', r['prox_seq'], r['sgs'])):
                okp = is_ctor(res, 'DiagonalOperator') and len(res.fields['ctor'][1]) == k and not res.fields['ctor'][2]
                if okp:
                    for i, t in enumerate(res.fields['ctor'][1]):
                        okp = okp and isinstance(t, tuple) and t[0] == 'prox' and t[1] == i and (t[2] is steps[i])
                ctx.prove(st, 'proximal(sigma) == DiagonalOperator(prox_{sigma_i f_i}) - ' + label, okp, dict(info, got=repr(res.fields.get('ctor') if isinstance(res, ip.Obj) else res)))
    return Unit('separable-sum/k=%d' % k, run, funcs=[FUNCS + 'SeparableSum._call', FUNCS + 'SeparableSum.gradient', FUNCS + 'SeparableSum.proximal', FUNCS + 'SeparableSum.convex_conj', PROX + 'combine_proximals'],
                config={'summands': k})
