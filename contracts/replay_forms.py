"""Native replay of call-form obligations (C03 / C10): rebuild the operator through the real factory /
class with the model's parameters, evaluate op(x), op(x, out=y), op(x, out=x) natively and check the
contract (in-place == out-of-place, aliased == out-of-place, input and stored vectors unchanged)."""
import os
import sys


def _odl():
    root = os.environ.get('PYVC_REPO', '/repo')
    if root not in sys.path:
        sys.path.insert(0, root)
    import odl
    return odl


def _num(m, k, default):
    v = m.get(k)
    if isinstance(v, (int, float)) and v == v and abs(v) < 1e6:
        return float(v)
    return default


def replay_nonalias_operands(ob):
    """expression classes around an operand that is NOT alias-safe (Laplacian): op(x, out=y) with y a different object must equal op(x)"""
    odl = _odl()
    import numpy as np
    from odl.operator import operator as O
    rng = np.random.default_rng(4)
    X = odl.uniform_discr([0, 0], [1, 1], (5, 6))
    L = odl.Laplacian(X, pad_mode='symmetric')
    P = odl.PartialDerivative(X, 0, pad_mode='constant', pad_const=1.5)
    v = X.element(rng.standard_normal(X.shape))
    exprs = {'OperatorRightScalarMult': lambda A: O.OperatorRightScalarMult(A, 2.0), 'OperatorLeftScalarMult': lambda A: O.OperatorLeftScalarMult(A, 2.0),
             'OperatorSum': lambda A: O.OperatorSum(A, A), 'OperatorComp': lambda A: O.OperatorComp(A, A), 'OperatorLeftVectorMult': lambda A: O.OperatorLeftVectorMult(A, v),
             'OperatorRightVectorMult': lambda A: O.OperatorRightVectorMult(A, v), 'OperatorVectorSum': lambda A: O.OperatorVectorSum(A, v)}
    for name, mk in exprs.items():
        for A in (L, P):
            op = mk(A)
            x = X.element(rng.standard_normal(X.shape))
            x0 = x.copy()
            want = op(x)
            y = X.element(rng.standard_normal(X.shape))
            got = op(x, out=y)
            if got is not y or (y - want).norm() > 1e-9 * max(1.0, want.norm()) or (x - x0).norm() != 0:
                return {'reproduced': True, 'detail': '%s around %s: op(x, out=y) differs from op(x) by %.3g (x changed: %r)' % (name, type(A).__name__, (y - want).norm(), (x - x0).norm() != 0)}
    return {'reproduced': False, 'detail': 'in-place == out-of-place for expression classes around operands that are not alias-safe'}


def replay(ob):
    if 'aliased to its input' in ob.get('name', ''):
        try:
            return replay_nonalias_operands(ob)
        except Exception as e:
            return {'reproduced': False, 'detail': 'replay harness error: %r' % (e,)}
    info = ob.get('info') or {}
    m = ob.get('model') or {}
    odl = _odl()
    import numpy as np
    rng = np.random.default_rng(3)
    n = 6
    tries = []
    for weighted in (False, True):
        X = odl.uniform_discr(0, 3, n) if weighted else odl.rn(n)

        def vec(name, positive=False):
            a = rng.standard_normal(n) * 2
            if positive:
                a = np.abs(a) + 0.1
            v0 = m.get('v.' + name)
            if isinstance(v0, (int, float)) and abs(v0) < 1e6:
                a[0] = v0
            return X.element(a)
        try:
            if 'factory' in info:
                fac = getattr(odl.solvers.nonsmooth.proximal_operators, info['factory'])
                opts = info.get('options', {})
                g = vec('g', positive=info['factory'] == 'proximal_convex_conj_kl') if opts.get('g') == 'True' else None
                lam = _num(m, 'lam', 1.3)
                sig = _num(m, 'sigma', 0.7) if opts.get('sigma') != 'elem' else vec('sigma', positive=True)
                stored = {'g': g} if g is not None else {}
                if info['factory'] == 'proximal_huber':
                    op = fac(X, gamma=_num(m, 'gamma', 0.5))(sig)
                elif info['factory'] == 'proximal_box_constraint':
                    ex = opts.get('extra', '(None, None)')
                    lo, up = eval(ex)
                    lov = None if lo is None else (_num(m, 'lower', -0.5) if lo == 'scalar' else vec('lower'))
                    upv = None if up is None else (_num(m, 'upper', 0.8) if up == 'scalar' else vec('upper'))
                    if lo == 'elem' and up == 'elem':
                        upv = lov + X.element(np.abs(rng.standard_normal(n)))
                    op = fac(X, lower=lov, upper=upv)(sig)
                elif info['factory'] in ('proximal_const_func', 'proximal_linfty', 'proximal_convex_conj_linfty'):
                    op = fac(X)(sig)
                else:
                    op = fac(X, lam=lam, g=g)(sig)
                if opts.get('sigma') == 'elem':
                    stored['sigma'] = sig
            else:
                return {'reproduced': False, 'detail': 'no native concretisation for this obligation kind'}
        except Exception as e:
            tries.append('construction raised %s: %s' % (type(e).__name__, e))
            continue
        for scale in (1.0, 0.05, 20.0):
            x = X.element(np.asarray(vec('x')) * scale)
            x0 = x.copy()
            olds = {k: v.copy() for k, v in stored.items()}
            try:
                y_oop = op(x)
                y_ip = X.element(np.full(n, 7.7))
                r_ip = op(x, out=y_ip)
                xa = x.copy()
                r_al = op(xa, out=xa)
            except Exception as e:
                return {'reproduced': 'no_raise' in ob.get('name', ''), 'detail': 'native call raised %s: %s' % (type(e).__name__, e)}
            problems = []
            if not np.allclose(y_ip.asarray(), y_oop.asarray(), rtol=1e-9, atol=1e-12):
                problems.append('in-place != out-of-place')
            if not np.allclose(xa.asarray(), y_oop.asarray(), rtol=1e-9, atol=1e-12):
                problems.append('aliased op(x, out=x) = %s but op(x) = %s' % (xa.asarray(), y_oop.asarray()))
            if not np.array_equal(x.asarray(), x0.asarray()):
                problems.append('input modified')
            if r_ip is not y_ip or r_al is not xa:
                problems.append('did not return out')
            for k in stored:
                if not np.array_equal(stored[k].asarray(), olds[k].asarray()):
                    problems.append('stored vector %s modified' % k)
            if problems:
                return {'reproduced': True, 'detail': '; '.join(problems),
                        'input': {'space': repr(X), 'x': x0.asarray().tolist(), 'info': info}}
    return {'reproduced': False, 'detail': 'contract holds natively on the concretised inputs ' + '; '.join(tries)}
