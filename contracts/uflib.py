"""C17 vocabulary: abstract ndarrays (identity, dtype, shape, ghost write log) and abstract NumPy ufuncs whose
calls are recorded.  NumPy itself is external: what is under contract is ODL's dispatch around it."""
import itertools

import z3

from pyvc import core, interp as ip, npmodel as npm
from pyvc.core import S, Unsupported

_ctr = itertools.count()


class AbsArr(object):
    """an ndarray known by identity: dtype, shape, origin; `log` is the shared ghost event list"""

    def __init__(self, name, dtype, shape, log, origin=None, writeable=True):
        self.name, self.dtype, self.shape, self.log, self.origin = name, npm.DT(dtype) if isinstance(dtype, str) else dtype, tuple(shape), log, origin
        self.writeable = writeable

    def __repr__(self):
        return '<ndarray %s %s %r>' % (self.name, self.dtype.name, self.shape)

    def pv_isinstance(self, I, cls):
        return getattr(cls, 'name', None) == 'ndarray' or getattr(cls, 'attr', None) == 'ndarray'

    def pv_type(self, I, fr):
        return I.ext_modules['numpy'].table['ndarray']

    def pv_is(self, other):
        return other is self

    def pv_getattr(self, I, fr, name):
        if name == 'dtype':
            return self.dtype
        if name == 'shape':
            return self.shape
        if name == 'ndim':
            return len(self.shape)
        if name == 'size':
            n = 1
            for x in self.shape:
                n = n * x
            return n
        if name == 'flags':
            return _Flags(self)
        if name == 'astype':
            def astype(I, fr, args, kwargs):
                dt = npm.as_dtype(args[0] if args else kwargs['dtype'])
                if kwargs.get('copy', True) is False and dt == self.dtype:
                    return self
                new = AbsArr('astype(%s,%s)#%d' % (self.name, dt.name, next(_ctr)), dt, self.shape, self.log, origin=('cast', self))
                return new
            return ip.Builtin('astype', astype)
        if name == 'copy':
            return ip.Builtin('copy', lambda I, fr, a, k: AbsArr('copy(%s)#%d' % (self.name, next(_ctr)), self.dtype, self.shape, self.log, origin=('copy', self)))
        if name == '__array_priority__':
            return 0.0
        if name == 'itemsize':
            import numpy as _np
            return int(_np.dtype(self.dtype.name).itemsize)
        if name == 'strides':
            # an arbitrary strided view: per axis any non-zero multiple of the item size, of either sign (reversed views are ordinary, writeable ndarrays)
            if not hasattr(self, '_strides'):
                import numpy as _np
                isz = int(_np.dtype(self.dtype.name).itemsize)
                ks = [S(z3.Int('%s.stride%d' % (self.name, i))) for i in range(len(self.shape))]
                for k in ks:
                    fr.st.assume(core.s_not(core.sc_eq(k, 0)))
                self._strides = tuple(k * isz for k in ks)
            return self._strides
        if name in ('space', 'tensor', 'data'):
            raise ip.PyRaise(I.make_exc('AttributeError', name))
        raise Unsupported('ndarray.%s on an abstract array' % name)

    def pv_setitem(self, I, fr, idx, val):
        if not (idx is Ellipsis or (isinstance(idx, slice) and idx == slice(None))):
            raise Unsupported('partial assignment to an abstract array')
        src = val
        if isinstance(val, ip.Obj):
            src = npm.unwrap(I, fr, val)
        self.log.append(('write', self, src))

    def np_conv(self, I, fr, kwargs, fn):
        """np.asarray / np.array of this array"""
        dt = kwargs.get('dtype')
        copy = kwargs.get('copy', fn == 'array')
        ndmin = kwargs.get('ndmin', 0)
        if isinstance(ndmin, S):
            ndmin = ndmin.concrete()
        if dt is not None and npm.as_dtype(dt) != self.dtype:
            return AbsArr('cast(%s,%s)#%d' % (self.name, npm.as_dtype(dt).name, next(_ctr)), npm.as_dtype(dt), self.shape, self.log, origin=('cast', self))
        if copy:
            return AbsArr('copy(%s)#%d' % (self.name, next(_ctr)), self.dtype, self.shape, self.log, origin=('copy', self))
        if ndmin and ndmin > len(self.shape):
            raise Unsupported('ndmin larger than ndim')
        return self


class _Flags(object):
    def __init__(self, a):
        self.a = a

    def pv_getattr(self, I, fr, name):
        if name == 'writeable':
            return self.a.writeable
        if name in ('c_contiguous', 'f_contiguous'):
            return True
        raise Unsupported('flags.%s' % name)


class AbsUfunc(object):
    """np.<ufunc>: nin / nout known, calls recorded; the result is an abstract array (or the out array(s) given)"""

    def __init__(self, name, nin, nout, log, res_dtype, res_shape_of):
        self.name, self.nin, self.nout, self.log = name, nin, nout, log
        self.res_dtype, self.res_shape_of = res_dtype, res_shape_of
        self.calls = []

    def pv_getattr(self, I, fr, name):
        if name == 'nout':
            return self.nout
        if name == 'nin':
            return self.nin
        if name == '__name__':
            return self.name
        if name in ('reduce', 'accumulate', 'outer', 'at', 'reduceat'):
            return ip.Builtin('%s.%s' % (self.name, name), lambda I, fr, a, k, m=name: self.invoke(I, fr, m, a, k))
        raise Unsupported('ufunc.%s' % name)

    def pv_call(self, I, fr, args, kwargs):
        return self.invoke(I, fr, '__call__', args, kwargs)

    def invoke(self, I, fr, method, args, kwargs):
        rec = {'method': method, 'args': tuple(args), 'kwargs': dict(kwargs)}
        self.calls.append(rec)
        out = kwargs.get('out')
        if method == 'at':
            self.log.append(('ufunc-at', args[0], rec))
            rec['result'] = None
            return None
        outs = out if isinstance(out, tuple) else ((out,) if out is not None else ())
        results = []
        for j in range(self.nout if method == '__call__' else 1):
            o = outs[j] if j < len(outs) else None
            if o is not None:
                self.log.append(('ufunc-result-into', o, rec, j))
                results.append(o)
            else:
                sh = self.res_shape_of(method, args, kwargs)
                if sh is None:
                    results.append(S(z3.Real('scalar_result#%d' % next(_ctr))))
                else:
                    results.append(AbsArr('res%d#%d' % (j, next(_ctr)), self.res_dtype[j] if isinstance(self.res_dtype, (tuple, list)) else self.res_dtype, sh, self.log, origin=('ufunc', rec, j)))
        rec['result'] = tuple(results)
        return results[0] if len(results) == 1 else tuple(results)
