"""Tensor-like abstract spaces: an arbitrary space of arrays (tensor or discretized space of any
shape/size/weighting) seen through the element API used by operators and proximals:
arithmetic (lib), x.ufuncs.*, norm/inner/dist (the documented weighted sums, proved in C02),
real/imag/conj, mask and [:] indexing.  Contents are pointwise terms at a generic index; the
inner product is  SUM(w * x * conj(y))  with an arbitrary positive pointwise weight w."""
import z3

from pyvc import core, interp as ip, npmodel as npm
from pyvc.core import S, C, V, VVar, VConst, VFresh, VLin, VPw, Unsupported, s_not, sc_eq
from contracts import lib, oplib
from contracts.lib import content, set_content, SPACE

BT = 'odl.space.base_tensors:'


class TSpace(lib.AbstractSpace):
    """instance of the real (abstract) class TensorSpace with symbolic shape; elements are instances of Tensor"""

    def __init__(self, I, name='X', field='real', exponent=2.0, twin=True):
        self.I, self.name, self.field = I, name, field
        self.cls = I.get_class(BT + 'TensorSpace')
        self.ecls = I.get_class(BT + 'Tensor')
        from pyvc.odlmodel import field_obj
        sp = ip.Obj(self.cls)
        self.size = S(z3.Int(name + '.size'))
        self.shape = npm.SymShape(self.size)
        self.dtype = npm.DT('complex128' if field == 'complex' else 'float64')
        sp.fields['_TensorSpace__shape'] = self.shape
        sp.fields['_TensorSpace__dtype'] = self.dtype
        sp.fields['_LinearSpace__field'] = field_obj(I, field)
        sp.tag = name
        sp.eqclass = name
        sp.builder = self
        self.space = sp
        self.has_one = self.has_multiply = True
        self.exponent = exponent
        self.n = 0
        self.weight = VVar(name.split('.')[0] + '.w', 'real')
        self.real_twin = self.complex_twin = None
        self.bool_twin = None
        if twin:
            base = name.split('.')[0]
            if field == 'complex':
                self.complex_twin = self
                self.real_twin = TSpace(I, base + '.real', 'real', exponent, twin=False)
                self.real_twin.complex_twin = self
                self.real_twin.real_twin = self.real_twin
            else:
                self.real_twin = self
                self.complex_twin = TSpace(I, base + '.complex', 'complex', exponent, twin=False)
                self.complex_twin.real_twin = self
                self.complex_twin.complex_twin = self.complex_twin
            for t in (self.real_twin, self.complex_twin):
                t.weight = self.weight
                t.size, t.shape = self.size, self.shape
                t.space.fields['_TensorSpace__shape'] = self.shape

    def constraints(self):
        low = core.Lower([])
        return [self.size >= 1, low(self.weight) > 0]

    def aux_bool(self):
        if self.bool_twin is None:
            b = TSpace(self.I, self.name.split('.')[0] + '.bool', 'real', twin=False)
            b.size, b.shape = self.size, self.shape
            b.dtype = npm.DT('bool')
            b.space.fields['_TensorSpace__dtype'] = b.dtype
            b.space.fields['_LinearSpace__field'] = None
            self.bool_twin = b
        return self.bool_twin


def builder(space):
    b = getattr(space, 'builder', None)
    if b is None:
        raise Unsupported('space without builder')
    return b


def make_elem(fr, space, cont):
    return builder(space).element(cont=cont)


class MaskedElem(object):
    """x[mask]: usable in  out[mask] = <scalar-affine expression of x[mask] terms with the same mask>"""

    def __init__(self, cont, mask):
        self.cont, self.mask = cont, mask

    def _lift(self, o):
        if isinstance(o, MaskedElem):
            if o.mask is not self.mask:
                raise Unsupported('arithmetic on differently masked selections')
            return o.cont
        return VConst(o)

    def pv_binop(self, I, fr, name, other):
        op = name.strip('_')
        refl = op.startswith('r') and op[1:] in ('add', 'sub', 'mul', 'truediv')
        if refl:
            op = op[1:]
        a, b = self.cont, self._lift(other)
        if refl:
            a, b = b, a
        if op == 'add':
            return MaskedElem(VLin([(1, a), (1, b)]), self.mask)
        if op == 'sub':
            return MaskedElem(VLin([(1, a), (-1, b)]), self.mask)
        if op == 'mul':
            return MaskedElem(core.vmul(a, b), self.mask)
        if op == 'truediv':
            return MaskedElem(core.vdiv(a, b), self.mask)
        return ip.NOTIMPL


class NdVal(object):
    """the ndarray seen through np.asarray(element) / element.asarray(): a VIEW of the element's data when `base` is set (in-place arithmetic writes
    through to the element, as NumPy does), a fresh array otherwise; pointwise contents at a generic index"""

    def __init__(self, cont=None, base=None):
        self._cont, self.base = cont, base

    @property
    def cont(self):
        return content(self.base) if self.base is not None else self._cont

    nd_content = cont

    def np_conv(self, I, fr, kwargs, how):
        if kwargs.get('dtype') is not None:
            raise Unsupported('np.%s(array, dtype=...) of an element view' % how)
        return self if how == 'asarray' else NdVal(self.cont)

    def pv_getattr(self, I, fr, name):
        if name == 'copy':
            return ip.Builtin('copy', lambda I2, fr2, a, k: NdVal(self.cont))
        raise Unsupported('ndarray view .%s' % name)

    def pv_inplace(self, I, fr, iname, other):
        return self.pv_binop(I, fr, iname, other)

    def pv_binop(self, I, fr, name, other):
        op = name.strip('_')
        inplace = op in ('imul', 'iadd', 'isub', 'itruediv')
        if inplace:
            op = op[1:]
        refl = op in ('rmul', 'radd', 'rsub', 'rtruediv')
        if refl:
            op = op[1:]
        if op not in ('mul', 'add', 'sub', 'truediv'):
            return ip.NOTIMPL
        if isinstance(other, NdVal):
            o, target = other.cont, None
        elif isinstance(other, ip.Obj) and hasattr(other, 'content'):
            if inplace:
                raise Unsupported('ndarray view (in-place) element')
            o, target = content(other), builder(I._getattr(other, 'space', fr))     # ndarray (op) element is an element (__array_ufunc__ / __array_priority__)
        elif I.scalar_kind(other) is not None:
            o, target = VConst(other), None
        else:
            return ip.NOTIMPL
        a, b = (o, self.cont) if refl else (self.cont, o)
        val = _pw({'truediv': 'div'}.get(op, op), [a, b])
        if inplace:
            if self.base is not None:
                set_content(self.base, val)
                fr.st.events.append(('write', self.base))
            else:
                self._cont = val
            return self
        if target is not None:
            return target.element(cont=val)
        return NdVal(val)


_UNARY = {'absolute': 'abs', 'abs': 'abs', 'sign': 'sign', 'sqrt': 'sqrt', 'square': 'square', 'exp': 'exp', 'log': 'log',
          'logical_not': 'not', 'conj': 'conj', 'conjugate': 'conj', 'negative': 'neg', 'real': 'real', 'imag': 'imag'}
_BINARY = {'maximum': 'maximum', 'minimum': 'minimum', 'divide': 'div', 'true_divide': 'div', 'multiply': 'mul', 'add': 'add',
           'subtract': 'sub', 'less_equal': 'le', 'less': 'lt', 'greater': 'gt', 'greater_equal': 'ge', 'equal': 'eq', 'power': 'power',
           'logical_and': 'and', 'logical_or': 'or'}
_REDUCE = {'sum': 'sum', 'max': 'max', 'min': 'min'}


def _pw(fn, args):
    if fn == 'add':
        return VLin([(1, args[0]), (1, args[1])])
    if fn == 'sub':
        return VLin([(1, args[0]), (-1, args[1])])
    if fn == 'mul':
        return core.vmul(args[0], args[1])
    if fn == 'div':
        return core.vdiv(args[0], args[1])
    if fn == 'neg':
        return VLin([(-1, args[0])])
    if fn == 'power':
        e = args[1].c if isinstance(args[1], VConst) else args[1]
        return VPw('power', (args[0], e))
    return VPw(fn, tuple(args))


class UfuncsModel(object):
    """contract of `x.ufuncs` (C17: behaves like the NumPy ufunc on the underlying array)"""

    def __init__(self, x):
        self.x = x

    def pv_getattr(self, I, fr, name):
        x = self.x
        sp = I._getattr(x, 'space', fr)
        b = builder(sp)

        def operand(o):
            if isinstance(o, ip.Obj):
                return content(o)
            if I.scalar_kind(o) is None:
                raise Unsupported('ufunc operand %r' % (o,))
            return VConst(o)

        def finish(val, out, kind=None):
            if out is not None:
                if not isinstance(out, ip.Obj):
                    raise Unsupported('ufunc out=%r' % (out,))
                set_content(out, val)
                fr.st.events.append(('write', out))
                return out
            target = b
            if kind == 'bool':
                target = b.aux_bool()
            elif kind == 'real' and b.field == 'complex':
                target = b.real_twin
            return target.element(cont=val)

        if name in _UNARY:
            fn = _UNARY[name]

            def f(I, fr, args, kwargs):
                out = kwargs.get('out', args[0] if args else None)
                c = content(x)
                if fn in ('conj', 'real') and b.field != 'complex':
                    val = c
                elif fn == 'imag' and b.field != 'complex':
                    val = VConst(0.0)
                else:
                    val = _pw(fn, [c])
                return finish(val, out, 'real' if fn in ('abs', 'real', 'imag') else ('bool' if fn == 'not' else None))
            return ip.Builtin('ufuncs.' + name, f)
        if name in _BINARY:
            fn = _BINARY[name]

            def f(I, fr, args, kwargs):
                out = kwargs.get('out', args[1] if len(args) > 1 else None)
                val = _pw(fn, [content(x), operand(args[0])])
                return finish(val, out, 'bool' if fn in ('le', 'lt', 'gt', 'ge', 'eq', 'and', 'or') else None)
            return ip.Builtin('ufuncs.' + name, f)
        if name in _REDUCE:
            def f(I, fr, args, kwargs):
                if args or kwargs.get('axis') is not None:
                    raise Unsupported('ufuncs.%s with axis' % name)
                return fr.st.reductions.reduce(fr, _REDUCE[name], content(x))
            return ip.Builtin('ufuncs.' + name, f)
        raise Unsupported('x.ufuncs.%s' % name)


def inner_term(b, x, y):
    yc = y if b.field != 'complex' else VPw('conj', (y,))
    return core.vmul(b.weight, core.vmul(x, yc))


def tensor_cuts():
    """contracts of the tensor-like element / space API"""
    cuts = {}
    TE = SPACE + 'LinearSpaceTypeError'

    def ufuncs(I, fr, self):
        return UfuncsModel(self)

    def s_inner(I, fr, self, x1, x2):
        if not lib.in_space(I, fr, x1, self) or not lib.in_space(I, fr, x2, self):
            lib.raise_(I, TE, 'not an element of the space')
        b = builder(self)
        if getattr(fr.st, 'inner_fn', None) is not None:
            return fr.st.inner_fn(I, fr, self, content(x1), content(x2))
        if getattr(fr.st, 'inner_mode', 'sum') == 'gram':
            return oplib.inner(I, fr, self, content(x1), content(x2))
        return fr.st.reductions.reduce(fr, 'sum', inner_term(b, content(x1), content(x2)))

    def s_norm(I, fr, self, x):
        if not lib.in_space(I, fr, x, self):
            lib.raise_(I, TE, 'not an element of the space')
        b = builder(self)
        if b.exponent != 2.0:
            raise Unsupported('norm with exponent != 2 in the abstract tensor space')
        if getattr(fr.st, 'inner_fn', None) is not None:
            ip_ = fr.st.inner_fn(I, fr, self, content(x), content(x))
        elif getattr(fr.st, 'inner_mode', 'sum') == 'gram':
            ip_ = oplib.inner(I, fr, self, content(x), content(x))
        else:
            ip_ = fr.st.reductions.reduce(fr, 'sum', inner_term(b, content(x), content(x)))
        re = ip_.real if isinstance(ip_, C) else ip_
        nz = fr.st.reductions
        # facts about the weighted sum of squares: it is >= 0 and vanishes iff x == 0 (w > 0)
        fr.st.assume(re >= 0)
        return core.ssqrt(re)

    def s_dist(I, fr, self, x1, x2):
        if not lib.in_space(I, fr, x1, self) or not lib.in_space(I, fr, x2, self):
            lib.raise_(I, TE, 'not an element of the space')
        b = builder(self)
        d = VLin([(1, content(x1)), (-1, content(x2))])
        if getattr(fr.st, 'inner_fn', None) is not None:
            ip_ = fr.st.inner_fn(I, fr, self, d, d)
        else:
            ip_ = fr.st.reductions.reduce(fr, 'sum', inner_term(b, d, d))
        re = ip_.real if isinstance(ip_, C) else ip_
        fr.st.assume(re >= 0)
        return core.ssqrt(re)

    cuts[BT + 'TensorSpace.zero'] = lambda I, fr, self: builder(self).element(cont=VConst(0.0))
    cuts[BT + 'TensorSpace.one'] = lambda I, fr, self: builder(self).element(cont=VConst(1.0))
    cuts[BT + 'Tensor.ufuncs'] = ufuncs
    cuts[SPACE + 'LinearSpace.inner'] = s_inner
    cuts[SPACE + 'LinearSpace.norm'] = s_norm
    cuts[SPACE + 'LinearSpace.dist'] = s_dist

    def getitem(I, fr, self, idx):
        if idx is Ellipsis or (isinstance(idx, slice) and idx == slice(None)):
            return self
        if isinstance(idx, ip.Obj) and hasattr(idx, 'content'):
            return MaskedElem(content(self), idx)
        raise Unsupported('Tensor.__getitem__(%r)' % (idx,))

    def setitem(I, fr, self, idx, val):
        if idx is Ellipsis or (isinstance(idx, slice) and idx == slice(None)):
            if isinstance(val, ip.Obj):
                new = content(val)
            elif I.scalar_kind(val) is not None:
                new = VConst(val)
            else:
                raise Unsupported('Tensor[:] = %r' % (val,))
            set_content(self, new)
            fr.st.events.append(('write', self))
            return None
        if isinstance(idx, ip.Obj) and hasattr(idx, 'content'):
            if isinstance(val, MaskedElem):
                if val.mask is not idx:
                    raise Unsupported('masked assignment from a different mask')
                new = val.cont
            elif I.scalar_kind(val) is not None:
                new = VConst(val)
            else:
                raise Unsupported('masked assignment of %r' % (val,))
            set_content(self, VPw('where', (content(idx), new, content(self))))
            fr.st.events.append(('write', self))
            return None
        raise Unsupported('Tensor.__setitem__(%r)' % (idx,))

    def asarray(I, fr, self, out=None):
        if out is not None:
            raise Unsupported('Tensor.asarray(out=...)')
        return NdVal(base=self)
    cuts[BT + 'Tensor.asarray'] = asarray
    cuts[BT + 'Tensor.__getitem__'] = getitem
    cuts[BT + 'Tensor.__setitem__'] = setitem

    def mk_part(part):
        def f(I, fr, self, *val):
            b = builder(I._getattr(self, 'space', fr))
            if val:        # setter:  x.real = v / x.imag = v
                v = val[0]
                if isinstance(v, PartView):
                    v = v.materialise()
                new = content(v) if isinstance(v, ip.Obj) else VConst(v)
                if b.field != 'complex':
                    if part == 'real':
                        set_content(self, new)
                        fr.st.events.append(('write', self))
                        return None
                    raise ip.PyRaise(I.make_exc('ValueError', 'cannot set imag of a real element'))
                PartView(self, part, b)._write(fr, new)
                return None
            if b.field != 'complex':
                return self if part == 'real' else b.element(cont=VConst(0.0))
            return PartView(self, part, b)
        return f

    def t_conj(I, fr, self, out=None):
        b = builder(I._getattr(self, 'space', fr))
        val = content(self) if b.field != 'complex' else VPw('conj', (content(self),))
        if out is None:
            return b.element(cont=val)
        set_content(out, val)
        return out

    cuts[BT + 'Tensor.real'] = mk_part('real')
    cuts[BT + 'Tensor.imag'] = mk_part('imag')
    cuts[BT + 'Tensor.conj'] = t_conj
    cuts[BT + 'TensorSpace.real_space'] = lambda I, fr, self: builder(self).real_twin.space
    cuts[BT + 'TensorSpace.complex_space'] = lambda I, fr, self: builder(self).complex_twin.space
    cuts[BT + 'TensorSpace.is_real'] = lambda I, fr, self: builder(self).field == 'real' and builder(self).dtype.kind == 'float'
    cuts[BT + 'TensorSpace.is_complex'] = lambda I, fr, self: builder(self).field == 'complex'
    cuts[BT + 'TensorSpace.__eq__'] = lib.set_eq_cuts()['odl.set.sets:Set.__eq__']
    return cuts


class PartView(object):
    """x.real / x.imag of a complex element: a *view* (writes go through)"""

    def __init__(self, x, part, b):
        self.x, self.part, self.b = x, part, b

    def cont(self):
        return VPw(self.part, (content(self.x),))

    def materialise(self):
        return self.b.real_twin.element(cont=self.cont())

    def _write(self, fr, new):
        c = content(self.x)
        if self.part == 'real':
            set_content(self.x, VPw('complex', (new, VPw('imag', (c,)))))
        else:
            set_content(self.x, VPw('complex', (VPw('real', (c,)), new)))
        fr.st.events.append(('write', self.x))

    def pv_binop(self, I, fr, name, other):
        m = self.materialise()
        o = other.materialise() if isinstance(other, PartView) else other
        return I.call(I._getattr(m, name, fr), [o], {}, fr)

    def pv_inplace(self, I, fr, name, other):
        m = self.materialise()
        o = other.materialise() if isinstance(other, PartView) else other
        r = I.call(I._getattr(m, name, fr), [o], {}, fr)
        if r is ip.NOTIMPL:
            return r
        self._write(fr, content(r))
        return self

    def pv_getattr(self, I, fr, name):
        m = self.materialise()
        if name in ('multiply', 'divide', 'ufuncs', 'norm', 'inner', 'space', 'copy', 'lincomb', 'assign', 'dist'):
            if name in ('lincomb', 'assign'):
                raise Unsupported('in-place method %s on a real/imag view' % name)
            return I._getattr(m, name, fr)
        raise Unsupported('attribute %s of a real/imag view' % name)


PROPS = {BT + 'Tensor.real', BT + 'Tensor.imag', BT + 'TensorSpace.real_space', BT + 'TensorSpace.complex_space',
         BT + 'TensorSpace.is_real', BT + 'TensorSpace.is_complex'}


def install(st):
    """all contracts a caller of tensor-like elements / spaces / operators sees"""
    st.cuts.update(oplib.std_cuts(make_elem))
    st.cuts.update(tensor_cuts())
    st.cut_props.update(PROPS)
