"""BOUNDED stand-in for the sampling half of C15 (sampling_function / _make_dual_use_func / vectorize / point_collocation / DiscretizedSpace.element: reflection on
user callables, outside the deductive subset): on small grids, space.element(f) is compared entry by entry with the callable evaluated at each grid point by plain
Python scalar arithmetic, for every kind of callable (natively vectorised, decorated with odl.vectorize, partial coordinates / broadcasting, in-place writer, constant),
real and complex spaces of both precisions, and for SEQUENCES of two uses of the very same callable object (history independence: caches inside the wrappers)."""
import itertools
import os
import sys


def _odl():
    root = os.environ.get('PYVC_REPO', '/repo')
    if root not in sys.path:
        sys.path.insert(0, root)
    import warnings
    warnings.filterwarnings('ignore')
    import odl
    import numpy as np
    return odl, np


KINDS = ('identity', 'native', 'native-broadcast', 'decorated', 'decorated-square', 'decorated-otypes', 'inplace', 'constant', 'native-complex', 'decorated-complex')
DTYPES = ('float32', 'float64', 'complex64', 'complex128')


def make_callable(kind, ndim):
    """returns (callable, scalar reference) - a FRESH callable object each time"""
    odl, np = _odl()
    if kind == 'identity':
        # returns (a view of) its own argument: the new element must still own its data
        return (lambda x: x[0] if ndim > 1 else x), (lambda p: p[0])
    if kind == 'native':
        return (lambda x: sum((i + 1.25) * x[i] ** 2 for i in range(ndim)) + 0.1), (lambda p: sum((i + 1.25) * p[i] ** 2 for i in range(ndim)) + 0.1)
    if kind == 'native-broadcast':
        return (lambda x: 3.5 * x[0] - 1.0 / 3.0), (lambda p: 3.5 * p[0] - 1.0 / 3.0)
    if kind == 'decorated':
        f = odl.util.vectorize(lambda x: (x[0] if ndim > 1 else x) * 1.1 + (x[1] ** 2 if ndim > 1 else 0.0) + 1.0 / 3.0)
        return f, (lambda p: p[0] * 1.1 + (p[1] ** 2 if ndim > 1 else 0.0) + 1.0 / 3.0)
    if kind == 'decorated-square':
        # integer-valued at points with integer coordinates: the output type seen at such a point must not stick to the wrapper
        f = odl.util.vectorize(lambda x: x[0] ** 2 + (x[1] ** 2 if ndim > 1 else 0))
        return f, (lambda p: p[0] ** 2 + (p[1] ** 2 if ndim > 1 else 0))
    if kind == 'decorated-otypes':
        f = odl.util.vectorize(otypes=['float64'])(lambda x: (x[0] if ndim > 1 else x) / 3.0 + (x[1] if ndim > 1 else 0.0))
        return f, (lambda p: p[0] / 3.0 + (p[1] if ndim > 1 else 0.0))
    if kind == 'inplace':
        def f(x, out):
            out[:] = sum((i + 1) * x[i] for i in range(ndim)) / 7.0
        return f, (lambda p: sum((i + 1) * p[i] for i in range(ndim)) / 7.0)
    if kind == 'constant':
        return (lambda x: 1.0 / 3.0), (lambda p: 1.0 / 3.0)
    if kind == 'native-complex':
        return (lambda x: x[0] * (1.0 / 3.0 + 2j) + 1j), (lambda p: p[0] * (1.0 / 3.0 + 2j) + 1j)
    if kind == 'decorated-complex':
        f = odl.util.vectorize(lambda x: (x[0] if ndim > 1 else x) * (1.0 / 3.0 + 2j) + 1j)
        return f, (lambda p: p[0] * (1.0 / 3.0 + 2j) + 1j)
    raise ValueError(kind)


def cases(tier='quick'):
    for ndim in (1, 2):
        for kind in KINDS:
            cplx = kind.endswith('complex')
            dts = [d for d in DTYPES if (d.startswith('complex') or not cplx)]
            for d1 in dts:
                yield dict(ndim=ndim, kind=kind, uses=[[d1, 'element']])
            # two uses of the same callable object: element / in-place collocation first, then another dtype
            for d1, d2 in itertools.product(dts, dts):
                for first in ('element', 'collocation-out'):
                    yield dict(ndim=ndim, kind=kind, uses=[[d1, first], [d2, 'element']])
            if kind.startswith('decorated'):
                # the decorated callable is first tried at a single point with integer coordinates (as one does in a REPL), then sampled
                for d2 in dts:
                    yield dict(ndim=ndim, kind=kind, uses=[['int', 'single-point'], [d2, 'element']])


def check(cfg):
    odl, np = _odl()
    from odl.discr.discr_utils import point_collocation, sampling_function
    ndim, kind = cfg['ndim'], cfg['kind']
    f, ref = make_callable(kind, ndim)
    evals = 0
    for dtype, how in cfg['uses']:
        if how == 'single-point':
            pt = [2, 1][:ndim]
            try:
                val = f(pt[0] if ndim == 1 else pt)
            except Exception as e:
                return 'evaluation at the single point %r raised %s: %s' % (pt, type(e).__name__, e), evals
            evals += 1
            if abs(complex(val) - complex(ref([float(c) for c in pt]))) > 1e-12:
                return 'value at the single point %r is %r, the callable gives %r' % (pt, val, ref([float(c) for c in pt])), evals
            continue
        sp = odl.uniform_discr([0.0, -1.0][:ndim], [1.0, 2.0][:ndim], [4, 3][:ndim], dtype=dtype)
        mesh = sp.meshgrid
        coords0 = [v.copy() for v in sp.grid.coord_vectors]
        try:
            if how == 'element':
                el = sp.element(f)
                got = el.asarray().copy()
                el *= 3.0           # the caller owns the new element: changing it in place must not change the space
                if any(not np.array_equal(a, b) for a, b in zip(sp.grid.coord_vectors, coords0)):
                    return 'use %r: scaling the new element in place changed the grid of the space: %r, was %r' % ((dtype, how), sp.grid.coord_vectors, coords0), evals
            else:
                got = np.empty(sp.shape, dtype=dtype)
                sf = sampling_function(f, sp.domain, out_dtype=dtype)
                point_collocation(sf, mesh, out=got)
        except Exception as e:
            return 'use %r raised %s: %s' % ((dtype, how), type(e).__name__, e), evals
        evals += 1
        want = np.empty(sp.shape, dtype='complex128')
        for idx in np.ndindex(*sp.shape):
            p = [float(sp.grid.coord_vectors[a][idx[a]]) for a in range(ndim)]
            want[idx] = ref(p)
        want = want.astype(dtype) if dtype.startswith('complex') else want.real.astype(dtype)
        if got.shape != want.shape or got.dtype != np.dtype(dtype):
            return 'use %r: shape / dtype %r %r' % ((dtype, how), got.shape, got.dtype), evals
        tol = 4 * np.finfo(np.dtype(dtype)).eps
        if not np.allclose(got, want, rtol=tol, atol=tol):
            return 'use %r of the same callable: values differ from the callable at the grid points by %.3g (max abs; precision of %s is %.1g)' % (
                (dtype, how), float(np.max(np.abs(got - want))), dtype, float(np.finfo(np.dtype(dtype)).eps)), evals
    return None, evals


def resampling_check(schemes):
    """Resampling with the given per-axis schemes against a separable reference (1-d interpolation applied axis by axis; grids chosen without nearest-neighbour ties)"""
    odl, np = _odl()
    nd = len(schemes)
    rng = np.random.default_rng(12)
    X = odl.uniform_discr([0.0] * nd, [1.0] * nd, [8, 9, 7][:nd])
    Y = odl.uniform_discr([0.0] * nd, [1.0] * nd, [3, 4, 2][:nd])         # same domain (required by Resampling), coarser sampling: every target node lies inside the hull of the source nodes, no nearest-neighbour ties
    x = X.element(rng.standard_normal(X.shape))
    got = odl.Resampling(X, Y, list(schemes) if nd > 1 else schemes[0])(x).asarray()
    ref = x.asarray()
    for ax, sch in enumerate(schemes):
        cv, pts = X.grid.coord_vectors[ax], Y.grid.coord_vectors[ax]
        M = np.zeros((len(pts), len(cv)))
        for i, p in enumerate(pts):
            k = int(np.clip(np.searchsorted(cv, p) - 1, 0, len(cv) - 2))
            t = (p - cv[k]) / (cv[k + 1] - cv[k])
            t = min(max(t, 0.0), 1.0)
            if sch == 'linear':
                M[i, k], M[i, k + 1] = 1 - t, t
            else:
                M[i, k + (1 if t >= 0.5 else 0)] = 1.0
        ref = np.moveaxis(np.tensordot(M, ref, axes=(1, ax)), 0, ax)
    if got.shape != ref.shape or not np.allclose(got, ref, atol=1e-12):
        return 'Resampling(%r -> %r, interp=%r) differs from the per-axis reference by %.3g' % (X.shape, Y.shape, list(schemes), float(np.max(np.abs(got - ref))))
    return None


def interp_native_cases():
    """(case, failure-or-None): interpolation of node values stored in C order, Fortran order and as transposed / strided views, and Resampling between spaces
    over the same set (different shapes; SAME shape with different node placement) - linear interpolation reproduces affine functions exactly between the nodes,
    nearest interpolation returns the value of the closest node, Resampling(x) equals the interpolant of x evaluated at the grid points of the range"""
    odl, np = _odl()
    from odl.discr.discr_utils import linear_interpolator, nearest_interpolator, per_axis_interpolator
    rng = np.random.default_rng(12)
    for shape in ((4, 5), (3, 4, 3)):
        cvecs = [np.sort(rng.uniform(0, 3, n)) + np.arange(n) * 0.1 for n in shape]
        mesh = np.meshgrid(*cvecs, indexing='ij')
        coef = rng.standard_normal(len(shape))
        vals_c = sum(c * m for c, m in zip(coef, mesh)) + 0.7
        layouts = {'C': np.ascontiguousarray(vals_c), 'F': np.asfortranarray(vals_c), 'transposed view': np.ascontiguousarray(vals_c.T).T,
                   'strided view': np.repeat(vals_c, 2, axis=-1)[..., ::2]}
        pts = np.array([rng.uniform(c[0], c[-1], 7) for c in cvecs])
        want_lin = sum(c * p for c, p in zip(coef, pts)) + 0.7
        for lname, vals in layouts.items():
            for scheme in ('linear', 'per-axis linear', 'nearest', 'per-axis mixed'):
                case = {'shape': list(shape), 'layout': lname, 'scheme': scheme}
                try:
                    if scheme == 'linear':
                        got = linear_interpolator(vals, cvecs)(pts)
                        bad = None if np.allclose(got, want_lin) else 'linear interpolation of an affine function on %s node values: %r, expected %r' % (lname, got, want_lin)
                    elif scheme == 'per-axis linear':
                        got = per_axis_interpolator(vals, cvecs, ['linear'] * len(shape))(pts)
                        bad = None if np.allclose(got, want_lin) else 'per-axis linear interpolation of an affine function on %s node values: %r, expected %r' % (lname, got, want_lin)
                    else:
                        schemes = ['nearest'] * len(shape) if scheme == 'nearest' else (['nearest'] + ['linear'] * (len(shape) - 1))
                        f = nearest_interpolator(vals, cvecs) if scheme == 'nearest' else per_axis_interpolator(vals, cvecs, schemes)
                        got = f(pts)
                        # reference: snap the nearest axes to the closest node (ties to the right are avoided by the random points), linear in the others
                        snapped = pts.copy()
                        for a, sch in enumerate(schemes):
                            if sch == 'nearest':
                                snapped[a] = cvecs[a][np.argmin(np.abs(cvecs[a][:, None] - pts[a][None, :]), axis=0)]
                        ref = sum(c * p for c, p in zip(coef, snapped)) + 0.7
                        bad = None if np.allclose(got, ref) else '%s interpolation on %s node values: %r, expected %r' % (scheme, lname, got, ref)
                except Exception as e:
                    bad = 'raised %s: %s' % (type(e).__name__, e)
                yield case, bad
    # Resampling
    pairs = []
    for nob_a, nob_b in ((False, True), (True, False), ((True, False), False), (False, False)):
        pairs.append((odl.uniform_discr(0, 1, 5, nodes_on_bdry=nob_a), odl.uniform_discr(0, 1, 5, nodes_on_bdry=nob_b)))
        pairs.append((odl.uniform_discr(0, 1, 4, nodes_on_bdry=nob_a), odl.uniform_discr(0, 1, 7, nodes_on_bdry=nob_b)))
    pairs.append((odl.uniform_discr([0, 0], [1, 2], (4, 3), nodes_on_bdry=[True, False]), odl.uniform_discr([0, 0], [1, 2], (4, 3))))
    pairs.append((odl.uniform_discr([0, 0], [1, 2], (4, 3)), odl.uniform_discr([0, 0], [1, 2], (6, 5), nodes_on_bdry=True)))
    for A, B in pairs:
        for interp in ('linear', 'nearest'):
            case = {'domain': repr(A), 'range': repr(B), 'interp': interp}
            try:
                x = A.element(rng.standard_normal(A.shape))
                R = odl.Resampling(A, B, interp)
                f = (linear_interpolator if interp == 'linear' else nearest_interpolator)(x.asarray(), A.grid.coord_vectors)
                ref = f(B.grid.meshgrid if B.ndim > 1 else B.grid.coord_vectors[0][None, :] if False else B.points().T)
                got = R(x).asarray().ravel()
                out = B.element(rng.standard_normal(B.shape))
                R(x, out=out)
                bad = None
                if not np.allclose(got, np.asarray(ref).ravel()):
                    bad = 'Resampling(%r -> %r, %r)(x) = %r, the interpolant of x at the range grid points is %r' % (A, B, interp, got, np.asarray(ref).ravel())
                elif not np.allclose(out.asarray().ravel(), got):
                    bad = 'Resampling(%r -> %r, %r): in-place result differs from out-of-place' % (A, B, interp)
            except Exception as e:
                bad = 'raised %s: %s' % (type(e).__name__, e)
            yield case, bad


def replay(ob):
    if ob.get('unit', '').startswith('interp-native/'):
        want = ob.get('model') or (ob.get('replay') or {}).get('case')
        for case, bad in interp_native_cases():
            if case == want:
                return {'reproduced': bool(bad), 'detail': bad or 'holds natively', 'input': case}
        return {'reproduced': False, 'detail': 'case not found'}
    if ob.get('unit', '').startswith('resampling/'):
        try:
            bad = resampling_check(tuple((ob.get('config') or {}).get('schemes')))
        except Exception as e:
            return {'reproduced': False, 'detail': 'native evaluation raised %s: %s' % (type(e).__name__, e)}
        return {'reproduced': bool(bad), 'detail': bad or 'matches the per-axis reference natively'}
    cfg = ob.get('model') or (ob.get('replay') or {}).get('case')
    if not cfg or 'uses' not in cfg:
        return {'reproduced': False, 'detail': 'no native concretisation for this obligation kind'}
    try:
        bad = check(cfg)[0]
    except Exception as e:
        return {'reproduced': False, 'detail': 'native evaluation raised %s: %s' % (type(e).__name__, e)}
    return {'reproduced': bool(bad), 'detail': bad or 'holds natively', 'input': cfg}
