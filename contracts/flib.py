"""Functional vocabulary for C07-C09: abstract functionals (value fval(f,.), gradient grad f, proximal
prox(f, sigma, .), convex conjugate), semantic functions of the derived functional classes."""
import z3

from pyvc import core, interp as ip, odlmodel as om
from pyvc.core import S, C, V, VVar, VConst, VFresh, VLin, VPw, VApp, OpSym, Unsupported
from contracts import lib, oplib, tlib
from contracts.lib import content, set_content
from contracts.oplib import OP, AbsOp, FieldSpec, sem, SEM, value_of, v_add, v_mul, inner, _g

FN = 'odl.solvers.functional.functional:'
DF = 'odl.solvers.functional.default_functionals:'


class AbsFunc(AbsOp):
    """arbitrary functional f: X -> field (instance of the real class Functional)"""

    def __init__(self, I, st, name, X, linear=False, lipschitz='sym'):
        self.I, self.name, self.dom, self.ran = I, name, X, FieldSpec(I, X.field or 'real')
        cls = I.get_class(FN + 'Functional')
        op = ip.Obj(cls)
        op.fields['_Operator__domain'] = X.space
        op.fields['_Operator__range'] = self.ran.space
        op.fields['_Operator__is_linear'] = bool(linear)
        op.fields['_Operator__is_functional'] = True
        if lipschitz == 'sym':
            L = S(z3.Real('L_' + name))
            st.assume(L >= 0)
        else:
            L = lipschitz
        op.fields['_Functional__grad_lipschitz'] = L
        self.L = L
        op.opsym = OpSym(name, linear=bool(linear))
        op.absop = op.absfunc = self
        self.op = op
        self.adj = None
        self.derivs = {}
        self.grad = None
        self.proxes = {}
        self.conj = None

    def gradient_op(self):
        if self.grad is None:
            self.grad = AbsOp(self.I, 'grad_' + self.name, self.dom, self.dom, False)
            self.grad.grad_of = self
        return self.grad


class ProxFactory(object):
    """contract of `f.proximal` for an abstract functional: sigma -> the operator prox(f, sigma, .)
    (one abstract operator per semantically distinct sigma)"""

    def __init__(self, af):
        self.af = af

    def pv_call(self, I, fr, args, kwargs):
        sigma = args[0] if args else kwargs.get('sigma', 1.0)
        af = self.af
        key = id(fr.st)
        lst = af.proxes.setdefault(key, [])
        if isinstance(sigma, ip.Obj):
            ls = fr.st.lower(content(sigma))
        elif hasattr(sigma, 'nd_content'):
            ls = fr.st.lower(sigma.nd_content)          # array-valued step size (np.asarray of an element): its values at the call
        else:
            ls = core._sc(sigma)
        for (l0, op) in lst:
            if type(l0) is type(ls) and fr.st.entails(core.sc_eq(l0, ls)):
                return op.op
        P = AbsOp(I, 'prox_%s[%d]' % (af.name, len(lst)), af.dom, af.dom, False)
        P.prox_of = af
        P.sigma = sigma
        P.op.opsym.prox = (af, sigma)
        lst.append((ls, P))
        return P.op


def functional_cuts():
    def gradient(I, fr, self):
        af = getattr(self, 'absfunc', None)
        if af is None:
            raise ip.PyRaise(I.make_exc('NotImplementedError', 'no gradient implemented'))
        return af.gradient_op().op

    def proximal(I, fr, self):
        af = getattr(self, 'absfunc', None)
        if af is None:
            raise ip.PyRaise(I.make_exc('NotImplementedError', 'no proximal implemented'))
        return ProxFactory(af)
    return {FN + 'Functional.gradient': gradient, FN + 'Functional.proximal': proximal}


# ---- semantic functions of the derived functional classes (documented values)

def _conj_value(I, fr, o, v):
    f = _g(I, fr, o, 'convex_conj')
    return conj_value(I, fr, f, v)


def conj_value(I, fr, f, v):
    """f*(v) for a functional object f: abstract scalar atom keyed by (f, v)"""
    sym = getattr(f, 'conjsym', None)
    if sym is None:
        sym = f.conjsym = OpSym('conj[%s]' % getattr(getattr(f, 'opsym', None), 'name', 'F%x' % (id(f) & 0xffff)), linear=False)
    arg = v if isinstance(v, V) else VConst(v)
    return fr.st.lower(VApp(sym, (arg,), 'real'))


SEM[FN + 'FunctionalDefaultConvexConjugate'] = _conj_value
SEM[FN + 'FunctionalTranslation'] = lambda I, fr, o, v: sem(I, fr, _g(I, fr, o, 'functional'), VLin([(1, v), (-1, value_of(_g(I, fr, o, 'translation')))]))


def _sem_quadpert(I, fr, o, v):
    f = _g(I, fr, o, 'functional')
    a = _g(I, fr, o, 'quadratic_coeff')
    u = value_of(_g(I, fr, o, 'linear_term'))
    c = _g(I, fr, o, 'constant')
    sp = _g(I, fr, o, 'domain')
    return sem(I, fr, f, v) + a * inner(I, fr, sp, v, v) + inner(I, fr, sp, v, u) + c


SEM[FN + 'FunctionalQuadraticPerturb'] = _sem_quadpert
SEM[FN + 'FunctionalQuotient'] = lambda I, fr, o, v: sem(I, fr, _g(I, fr, o, 'dividend'), v) / core._sc(sem(I, fr, _g(I, fr, o, 'divisor'), v))


def _sem_bregman(I, fr, o, v):
    f = _g(I, fr, o, 'functional')
    p = value_of(_g(I, fr, o, 'point'))
    g = value_of(_g(I, fr, o, 'subgrad'))
    sp = _g(I, fr, o, 'domain')
    return sem(I, fr, f, v) - sem(I, fr, f, p) - inner(I, fr, sp, VLin([(1, v), (-1, p)]), g)


SEM[FN + 'BregmanDistance'] = _sem_bregman
SEM[DF + 'ConstantFunctional'] = lambda I, fr, o, v: _g(I, fr, o, 'constant')


def install(st, inner_mode='gram'):
    tlib.install(st)
    st.cuts.update(oplib.calculus_cuts())
    st.cuts.update(functional_cuts())
    st.cut_props.update({FN + 'Functional.gradient', FN + 'Functional.proximal'})
    st.inner_mode = inner_mode


# ---- subdifferential calculus: "g in subdiff h (P)" reduced to the prox axiom of the abstract leaves

def find_prox_atoms(v, af, acc=None):
    acc = [] if acc is None else acc
    if isinstance(v, VApp):
        pr = getattr(v.op, 'prox', None)
        if pr is not None and pr[0] is af and v not in acc:
            acc.append(v)
        for a in v.args:
            if isinstance(a, V):
                find_prox_atoms(a, af, acc)
    elif isinstance(v, VLin):
        for _, t in v.terms:
            find_prox_atoms(t, af, acc)
    elif isinstance(v, VPw):
        for a in v.args:
            if isinstance(a, V):
                find_prox_atoms(a, af, acc)
    return acc


def require_subgrad(I, fr, h, P, g, depth=0):
    """Reduce  g in subdiff h(P)  to a list of alternatives, each a list of vector equalities (lhs, rhs)
    that suffice by the characterisation  q = prox(f, tau, w)  <=>  (w - q)/tau in subdiff f(q)  of the
    abstract leaf functionals.  Structural over the derived functional classes (subdifferential calculus:
    positive scaling, argument scaling, translation, adding a quadratic and a linear term, conjugation)."""
    if depth > 10:
        raise Unsupported('subdifferential reduction too deep')
    af = getattr(h, 'absfunc', None)
    if af is not None:
        alts = []
        for q in find_prox_atoms(P, af) + [a for a in find_prox_atoms(g, af) if a not in find_prox_atoms(P, af)]:
            tau = q.op.prox[1]
            w = q.args[0]
            alts.append([(P, q), (g, VLin([(1 / core._sc(tau), w), (-1 / core._sc(tau), q)]))])
        return alts
    name = h.cls.name
    G = lambda n: I._getattr(h, n, fr)
    if name == 'FunctionalLeftScalarMult':
        s = G('scalar')
        return require_subgrad(I, fr, G('functional'), P, VLin([(1 / core._sc(s), g)]), depth + 1)
    if name == 'FunctionalRightScalarMult':
        s = G('scalar')
        return require_subgrad(I, fr, G('functional'), VLin([(s, P)]), VLin([(1 / core._sc(s), g)]), depth + 1)
    if name == 'FunctionalTranslation':
        t = value_of(G('translation'))
        return require_subgrad(I, fr, G('functional'), VLin([(1, P), (-1, t)]), g, depth + 1)
    if name == 'FunctionalQuadraticPerturb':
        a, u = G('quadratic_coeff'), value_of(G('linear_term'))
        return require_subgrad(I, fr, G('functional'), P, VLin([(1, g), (-2 * a, P), (-1, u)]), depth + 1)
    if name == 'FunctionalScalarSum':
        return require_subgrad(I, fr, G('left'), P, g, depth + 1)
    if name == 'FunctionalDefaultConvexConjugate':
        return require_subgrad(I, fr, G('convex_conj'), g, P, depth + 1)
    if name == 'BregmanDistance':
        sg = value_of(G('subgrad'))
        return require_subgrad(I, fr, G('functional'), P, VLin([(1, g), (1, sg)]), depth + 1)
    raise Unsupported('no subdifferential rule for %s' % name)
