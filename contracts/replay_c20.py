"""Native search for a failing input of a C20 obligation: the law named by the obligation is evaluated with the real
classes (CPython) on a stated pool of instances per class (including the corner cases the symbolic proof distinguishes:
negative zero, different numbers of dimensions, permuted members, weightings of different subclasses)."""
import itertools
import os
import sys


def _odl():
    root = os.environ.get('PYVC_REPO', '/repo')
    if root not in sys.path:
        sys.path.insert(0, root)
    import warnings
    warnings.filterwarnings('ignore')
    import odl
    import numpy as np
    return odl, np


def pool(cls):
    odl, np = _odl()
    from odl.set import sets as S_
    from odl.space import weighting as W, npy_tensors as NT, pspace as PSm
    R, Z, Cx = odl.RealNumbers(), odl.Integers(), odl.ComplexNumbers()
    arr = np.array([1.0, 2.0])
    arr2 = np.array([1.0, 2.0])
    P = {
        'EmptySet': lambda: [S_.EmptySet(), S_.EmptySet()],
        'UniversalSet': lambda: [S_.UniversalSet(), S_.UniversalSet()],
        'Strings': lambda: [odl.Strings(2), odl.Strings(2), odl.Strings(3)],
        'RealNumbers': lambda: [R, odl.RealNumbers()],
        'ComplexNumbers': lambda: [Cx, odl.ComplexNumbers()],
        'Integers': lambda: [Z, odl.Integers()],
        'CartesianProduct': lambda: [S_.CartesianProduct(R, Z), S_.CartesianProduct(R, Z), S_.CartesianProduct(Z, R), S_.CartesianProduct(R)],
        'SetUnion': lambda: [S_.SetUnion(R, odl.Strings(2)), S_.SetUnion(odl.Strings(2), R), S_.SetUnion(R, Z), S_.SetUnion(R)],
        'SetIntersection': lambda: [S_.SetIntersection(R, Z), S_.SetIntersection(Z, R), S_.SetIntersection(R, Cx), S_.SetIntersection(R)],
        'FiniteSet': lambda: [S_.FiniteSet(1, 2), S_.FiniteSet(2, 1), S_.FiniteSet(1, 3), S_.FiniteSet(1)],
        'IntervalProd': lambda: [odl.IntervalProd([0], [1]), odl.IntervalProd([0, 0], [1, 1]), odl.IntervalProd([0, 0, 0], [1, 1, 1]), odl.IntervalProd([0.0], [1.0]),
                                 odl.IntervalProd([-0.0], [1.0]), odl.IntervalProd([0, 0], [1, 2])],
        'Weighting': lambda: [W.Weighting('numpy', 2.0), W.Weighting('numpy', 2.0), W.Weighting('numpy', 1.0)],
        'ConstWeighting': lambda: [W.ConstWeighting(2.0, impl='numpy'), W.ConstWeighting(2.0, impl='numpy'), W.ConstWeighting(3.0, impl='numpy'), W.ConstWeighting(2.0, impl='numpy', exponent=1.0),
                                   W.ConstWeighting(0.3, impl='numpy'), W.ConstWeighting(0.1 * 3, impl='numpy'), W.ConstWeighting(0.25, impl='numpy'), W.ConstWeighting(0.25 * (1 + 7e-6), impl='numpy'),
                                   W.ConstWeighting(0.25 * (1 + 1.4e-5), impl='numpy')],
        'ArrayWeighting': lambda: [W.ArrayWeighting(arr, impl='numpy'), W.ArrayWeighting(arr, impl='numpy'), W.ArrayWeighting(arr2, impl='numpy')],
        'NumpyTensorSpaceConstWeighting': lambda: [NT.NumpyTensorSpaceConstWeighting(2.0), NT.NumpyTensorSpaceConstWeighting(2.0), NT.NumpyTensorSpaceConstWeighting(3.0),
                                                   NT.NumpyTensorSpaceConstWeighting(0.3), NT.NumpyTensorSpaceConstWeighting(0.1 * 3), NT.NumpyTensorSpaceConstWeighting(0.25 * (1 + 7e-6)),
                                                   NT.NumpyTensorSpaceConstWeighting(0.25), NT.NumpyTensorSpaceConstWeighting(0.25 * (1 + 1.4e-5))],
        'NumpyTensorSpaceArrayWeighting': lambda: [NT.NumpyTensorSpaceArrayWeighting(arr), NT.NumpyTensorSpaceArrayWeighting(arr), NT.NumpyTensorSpaceArrayWeighting(arr2)],
        'ProductSpaceConstWeighting': lambda: [PSm.ProductSpaceConstWeighting(2.0), PSm.ProductSpaceConstWeighting(2.0), PSm.ProductSpaceConstWeighting(3.0)],
        'ProductSpaceArrayWeighting': lambda: [PSm.ProductSpaceArrayWeighting(arr), PSm.ProductSpaceArrayWeighting(arr), PSm.ProductSpaceArrayWeighting(arr2)],
        'NumpyTensorSpace': lambda: [odl.rn(3), odl.rn(3), odl.rn((3, 1)), odl.rn(3, dtype='float32'), odl.rn(3, weighting=2.0), odl.rn(3, weighting=2.0),
                                     odl.rn(2, weighting=arr), odl.rn(2, weighting=arr), odl.cn(3),
                                     odl.rn(3, weighting=0.3), odl.rn(3, weighting=0.1 * 3), odl.rn(3, weighting=0.25), odl.rn(3, weighting=0.25 * (1 + 7e-6)), odl.rn(3, weighting=0.25 * (1 + 1.4e-5))],
        'ProductSpace': lambda: [odl.ProductSpace(odl.rn(2), odl.rn(3)), odl.ProductSpace(odl.rn(2), odl.rn(3)), odl.ProductSpace(odl.rn(2), 2), odl.ProductSpace(odl.rn(2), odl.rn(3), weighting=2.0),
                                 odl.ProductSpace(odl.rn(2))],
        'RectGrid': lambda: [odl.RectGrid([0.0, 1.0]), odl.RectGrid([-0.0, 1.0]), odl.RectGrid([0.0, 1.0], [2.0, 3.0]), odl.RectGrid([0.0, 2.0]), odl.RectGrid([0.0, 1.0]),
                             odl.RectGrid([0.0, 1.0, 2.0]), odl.RectGrid([0.0, 1.000001, 2.0]), odl.RectGrid([0.0, 0.5, 2.0]), odl.RectGrid([0.0, 0.999999, 2.0])],
        'RectPartition': lambda: [odl.uniform_partition(0, 1, 2, nodes_on_bdry=True), odl.RectPartition(odl.IntervalProd(-0.0, 1), odl.RectGrid([-0.0, 1.0])),
                                  odl.uniform_partition(0, 1, 2), odl.uniform_partition([0, 0], [1, 1], (2, 2)), odl.uniform_partition(0, 1, 2, nodes_on_bdry=True)],
        'DiscretizedSpace': lambda: [odl.uniform_discr(0, 1, 2, nodes_on_bdry=True), odl.DiscretizedSpace(odl.RectPartition(odl.IntervalProd(-0.0, 1), odl.RectGrid([-0.0, 1.0])), odl.rn(2, weighting=0.5)) if False else odl.uniform_discr(0, 1, 2, nodes_on_bdry=True),
                                     odl.uniform_discr(0, 1, 3), odl.uniform_discr(0, 1, 2, dtype='float32'), odl.uniform_discr([0, 0], [1, 1], (2, 2))],
    }
    return P[cls]() if cls in P else None


def check_law(law, A, B):
    def h(x):
        return hash(x)
    if law == 'reflexive':
        for a in A:
            if not (a == a):
                return 'a == a is False for a = %r' % (a,)
    elif law == 'symmetric':
        for a, b in itertools.product(A, B):
            if bool(a == b) != bool(b == a):
                return '(a == b) = %r but (b == a) = %r for a = %r, b = %r' % (a == b, b == a, a, b)
    elif law == 'transitive':
        for a, b, c in itertools.product(A, repeat=3):
            if a == b and b == c and not (a == c):
                return 'a == b and b == c but not a == c for %r, %r, %r' % (a, b, c)
    elif law == 'ne':
        for a, b in itertools.product(A, B):
            if bool(a != b) == bool(a == b):
                return '(a != b) = %r and (a == b) = %r for a = %r, b = %r' % (a != b, a == b, a, b)
    elif law == 'hash':
        for a in list(A) + list(B):
            h(a)
        for a, b in itertools.product(A, B):
            if a == b and h(a) != h(b):
                return 'a == b but hash(a) != hash(b) for a = %r, b = %r' % (a, b)
    return None


def replay(ob):
    info = ob.get('info') or ob.get('config') or {}
    cfg = ob.get('config') or {}
    cls, other, law = cfg.get('cls') or info.get('cls'), cfg.get('other') or info.get('other'), cfg.get('law') or info.get('law')
    if ob['unit'].startswith('member/'):
        odl, np = _odl()
        for sp in (odl.rn(3), odl.ProductSpace(odl.rn(2), 2), odl.uniform_discr(0, 1, 3)):
            for sp2 in (odl.rn(3), odl.rn(3, weighting=2.0), odl.ProductSpace(odl.rn(2), 2), odl.uniform_discr(0, 1, 3), odl.uniform_discr(0, 2, 3)):
                x = sp2.one()
                if (x in sp) != (x.space == sp):
                    return {'reproduced': True, 'detail': 'x in space = %r but x.space == space = %r for %r, %r' % (x in sp, x.space == sp, sp2, sp)}
            if 1.5 in sp or (1, 2) in sp:
                return {'reproduced': True, 'detail': 'an object without a space is a member of %r' % (sp,)}
        return {'reproduced': False, 'detail': 'membership coherent on the native pool'}
    if ob['unit'].startswith('derived/byaxis_in'):
        odl, np = _odl()
        for dt in ('float32', 'float64', 'complex64', 'complex128'):
            for exponent in (2.0, 1.0):
                s0 = odl.uniform_discr([0, 0, 0], [1, 2, 3], (3, 4, 5), dtype=dt, exponent=exponent)
                for idx in (0, 2, slice(0, 2), [1, 0], [2]):
                    r = s0.byaxis_in[idx]
                    want_shape = tuple(np.empty(s0.shape)[0:0].shape) if False else (tuple(s0.shape[i] for i in idx) if isinstance(idx, list) else (s0.shape[idx] if isinstance(idx, slice) else (s0.shape[idx],)))
                    if r.dtype != s0.dtype or r.exponent != s0.exponent or r.shape != want_shape:
                        return {'reproduced': True, 'detail': '%r.byaxis_in[%r]: dtype %s, exponent %r, shape %r; expected %s, %r, %r' % (s0, idx, r.dtype, r.exponent, r.shape, s0.dtype, s0.exponent, want_shape)}
                    if exponent == 2.0 and abs(r.weighting.const - r.partition.cell_volume) > 1e-12:
                        return {'reproduced': True, 'detail': '%r.byaxis_in[%r]: weighting %r, cell volume of the sub-partition %r' % (s0, idx, r.weighting.const, r.partition.cell_volume)}
        return {'reproduced': False, 'detail': 'byaxis_in keeps dtype / exponent and re-weights by the cell volume on the native pool'}
    if ob['unit'].startswith('derived/pspace-element'):
        odl, np = _odl()
        cfg = ob.get('config') or {}
        k, m = int(cfg.get('factors', 2)), int(cfg.get('sequence_length', 2))
        facs = [odl.rn(2), odl.rn(3), odl.cn(2), odl.rn(4)]
        for sp in (odl.ProductSpace(*facs[:k]), odl.ProductSpace(odl.rn(2), k), odl.ProductSpace(odl.rn(2), k, weighting=2.0)):
            inp = [(sp[i] if i < k else sp[0]).one() for i in range(m)]
            try:
                res = sp.element(inp)
            except (ValueError, TypeError):
                if m == k:
                    return {'reproduced': True, 'detail': '%r.element(<%d proper elements>) raised' % (sp, m)}
                continue
            if m != k or res not in sp or len(res.parts) != len(sp):
                return {'reproduced': True, 'detail': '%r.element(<%d proper elements>) returned an "element" with %d parts (in space: %r) instead of raising' % (sp, m, len(res.parts), res in sp),
                        'input': {'factors': k, 'sequence_length': m}}
        return {'reproduced': False, 'detail': 'element() rejects sequences of the wrong length and wraps those of the right length natively'}
    if ob['unit'].startswith('derived/astype-chain'):
        odl, np = _odl()
        fl = ('float16', 'float32', 'float64', 'complex64', 'complex128')
        for d0 in fl:
            for d1 in fl:
                for d2 in fl:
                    sp = odl.tensor_space(3, dtype=d0, weighting=2.0, exponent=1.5)      # fresh space: the caches are per instance
                    cur, chain = sp, [d0]
                    for d in (d1, d2, d0):
                        cur = cur.astype(d)
                        chain.append(d)
                        if cur.dtype != np.dtype(d) or cur.shape != sp.shape or not (cur.weighting == sp.weighting) or cur.exponent != sp.exponent:
                            return {'reproduced': True, 'detail': 'tensor_space(3, %s, weighting=2.0, exponent=1.5) after astype chain %s is %r' % (d0, ' -> '.join(chain), cur),
                                    'input': {'chain': chain}}
        return {'reproduced': False, 'detail': 'all astype chains of length 3 over %s give the requested dtype, shape and weighting' % (fl,)}
    if ob['unit'].startswith('derived/astype'):
        odl, np = _odl()
        for sp in (odl.rn(3), odl.rn(3, exponent=1.0), odl.rn(3, weighting=2.0), odl.rn(3, weighting=2.0, exponent=1.5), odl.rn(2, weighting=np.array([1.0, 2.0])),
                   odl.rn(2, weighting=np.array([1.0, 2.0]), exponent=1.0), odl.cn(3, exponent=1.0), odl.rn((2, 3), exponent=float('inf'))):
            for dt in ('float32', 'float64', 'complex64', 'complex128'):
                try:
                    new = sp.astype(dt)
                except ValueError:
                    continue        # array weighting that cannot be cast safely to the new dtype: rejected, not part of the claim
                if new.shape != sp.shape or new.dtype != np.dtype(dt):
                    return {'reproduced': True, 'detail': '%r.astype(%s) = %r: shape / dtype' % (sp, dt, new)}
                if not (new.weighting == sp.weighting) or new.exponent != sp.exponent:
                    return {'reproduced': True, 'detail': '%r.astype(%s) has weighting %r (exponent %r), original %r (exponent %r)' % (sp, dt, new.weighting, new.exponent, sp.weighting, sp.exponent)}
        return {'reproduced': False, 'detail': 'astype keeps shape, dtype and weighting on the native pool'}
    A = pool(cls)
    B = pool(other) if other else A
    if A is None or B is None:
        return {'reproduced': False, 'detail': 'no native concretisation for this obligation kind'}
    try:
        bad = check_law(law, A, B)
    except Exception as e:
        bad = '%s raised %s: %s' % (law, type(e).__name__, e)
    return {'reproduced': bool(bad), 'detail': bad or 'law holds on the native pool (%d x %d instances)' % (len(A), len(B)), 'input': {'cls': cls, 'other': other, 'law': law}}
