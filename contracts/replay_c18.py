"""Native search for a failing input of a C18 obligation: reciprocal_grid / realspace_grid are evaluated with the real code on small
uniform grids of every parity / shift / halfcomplex / axes configuration; the DFT operators are compared with numpy.fft on random
(complex) data and composed with their inverse."""
import itertools
import os
import sys


def _odl():
    root = os.environ.get('PYVC_REPO', '/repo')
    if root not in sys.path:
        sys.path.insert(0, root)
    import warnings
    warnings.filterwarnings('ignore')
    import odl
    import numpy as np
    return odl, np


def check_grid(cfg):
    odl, np = _odl()
    from odl.trafos.util.ft_utils import reciprocal_grid, realspace_grid
    ndim, axes, shifts, hc, parity = cfg['ndim'], cfg['axes'], cfg['shift'], cfg['halfcomplex'], cfg['parity']
    for n_last in ((4, 6) if parity == 'even' else (3, 5)):
        for n_other in (3, 4):
            shape = [n_other] * ndim
            shape[axes[-1]] = n_last
            g = odl.uniform_grid([-1.0, 0.5][:ndim], [1.5, 2.0][:ndim], shape)
            rg = reciprocal_grid(g, shift=shifts, axes=axes, halfcomplex=hc)
            for k in range(ndim):
                if k not in axes:
                    if rg.shape[k] != g.shape[k] or not np.isclose(rg.stride[k], g.stride[k]):
                        return 'axis %d is not transformed but changed: %r' % (k, rg)
                    continue
                exp_n = g.shape[k] // 2 + 1 if (hc and k == axes[-1]) else g.shape[k]
                if rg.shape[k] != exp_n:
                    return 'axis %d: %d reciprocal points, expected %d (grid shape %r, axes %r)' % (k, rg.shape[k], exp_n, g.shape, axes)
                if not np.isclose(rg.stride[k], 2 * np.pi / (g.shape[k] * g.stride[k])):
                    return 'axis %d: reciprocal stride %r, expected 2 pi/(n s) = %r (grid shape %r, axes %r, shift %r, halfcomplex %r)' % (
                        k, rg.stride[k], 2 * np.pi / (g.shape[k] * g.stride[k]), g.shape, axes, shifts, hc)
            back = realspace_grid(rg, g.min_pt, axes=axes, halfcomplex=hc, halfcx_parity=parity)
            if back.shape != g.shape or not np.allclose(back.stride, g.stride) or not np.allclose(back.min_pt, g.min_pt):
                return 'realspace_grid(reciprocal_grid(g)) = %r differs from g = %r' % (back, g)
    return None


def check_dft(cfg):
    odl, np = _odl()
    rng = np.random.default_rng(5)
    sign, hc = cfg['sign'], cfg['halfcomplex']
    for shape in ((4,), (5,), (3, 4)):
        dom = odl.uniform_discr([0] * len(shape), [1] * len(shape), shape, dtype='float64' if hc else 'complex128')
        x = rng.standard_normal(shape) if hc else rng.standard_normal(shape) + 1j * rng.standard_normal(shape)
        for impl in ('numpy',):
            ft = odl.trafos.DiscreteFourierTransform(dom, sign=sign, halfcomplex=hc, impl=impl)
            y = ft(x).asarray()
            n = np.prod(shape)
            ref = np.fft.rfftn(x) if hc else (np.fft.fftn(x) if sign == '-' else n * np.fft.ifftn(x))
            if not np.allclose(y, ref):
                return 'DiscreteFourierTransform(sign=%r, halfcomplex=%r) on shape %r differs from numpy.fft' % (sign, hc, shape)
            if not np.allclose(ft.inverse(ft(x)).asarray(), x):
                return 'inverse(forward(x)) != x for sign=%r, halfcomplex=%r, shape %r' % (sign, hc, shape)
    return None


def check_wavelet(cfg):
    odl, np = _odl()
    ndim, axes, cname = cfg['ndim'], tuple(cfg['axes']), cfg['class']
    sp = odl.uniform_discr([0.0] * ndim, [2.0, 3.0, 5.0][:ndim], [4, 8, 4][:ndim])       # cell sides 0.5, 0.375, 1.25
    for wname in ('db1', 'db2', 'sym3'):
        W = odl.trafos.WaveletTransform(sp, wname, nlevels=1, pad_mode='pywt_periodic', axes=axes)
        op = W if cname == 'WaveletTransform' else W.inverse
        x = odl.phantom.white_noise(op.domain, seed=3)
        y = odl.phantom.white_noise(op.range, seed=4)
        lhs, rhs = op(x).inner(y), x.inner(op.adjoint(y))
        if abs(lhs - rhs) > 1e-9 * max(1.0, abs(lhs)):
            return '%s(%s, axes=%s) on uniform_discr(%s, %s, %s): <A x, y> = %r but <x, A.adjoint y> = %r' % (
                cname, wname, axes, list(sp.min_pt), list(sp.max_pt), sp.shape, lhs, rhs)
    return None


def replay(ob):
    cfg = ob.get('config') or {}
    try:
        if ob['unit'].startswith('grid/'):
            bad = check_grid(cfg)
        elif ob['unit'].startswith('dft/'):
            bad = check_dft(cfg)
        elif ob['unit'].startswith('wavelet-adjoint/'):
            bad = check_wavelet(cfg)
        else:
            return {'reproduced': False, 'detail': 'no native concretisation for this obligation kind'}
    except Exception as e:
        return {'reproduced': False, 'detail': 'native evaluation raised %s: %s (not counted as a reproduction)' % (type(e).__name__, e)}
    return {'reproduced': bool(bad), 'detail': bad or 'holds natively on the pool', 'input': cfg}
