"""Native search for a failing input of a C18 obligation: reciprocal_grid / realspace_grid are evaluated with the real code on small
uniform grids of every parity / shift / halfcomplex / axes configuration; the DFT operators are compared with numpy.fft on random
(complex) data and composed with their inverse."""
import itertools
import os
import sys


def _odl():
    root = os.environ.get('PYVC_REPO', '/repo')
    if root not in sys.path:
        sys.path.insert(0, root)
    import warnings
    warnings.filterwarnings('ignore')
    import odl
    import numpy as np
    return odl, np


def check_grid(cfg):
    odl, np = _odl()
    from odl.trafos.util.ft_utils import reciprocal_grid, realspace_grid
    ndim, axes, shifts, hc, parity = cfg['ndim'], cfg['axes'], cfg['shift'], cfg['halfcomplex'], cfg['parity']
    for n_last in ((4, 6) if parity == 'even' else (3, 5)):
        for n_other in (3, 4):
            shape = [n_other] * ndim
            shape[axes[-1]] = n_last
            g = odl.uniform_grid([-1.0, 0.5][:ndim], [1.5, 2.0][:ndim], shape)
            rg = reciprocal_grid(g, shift=shifts, axes=axes, halfcomplex=hc)
            for k in range(ndim):
                if k not in axes:
                    if rg.shape[k] != g.shape[k] or not np.isclose(rg.stride[k], g.stride[k]):
                        return 'axis %d is not transformed but changed: %r' % (k, rg)
                    continue
                exp_n = g.shape[k] // 2 + 1 if (hc and k == axes[-1]) else g.shape[k]
                if rg.shape[k] != exp_n:
                    return 'axis %d: %d reciprocal points, expected %d (grid shape %r, axes %r)' % (k, rg.shape[k], exp_n, g.shape, axes)
                if not np.isclose(rg.stride[k], 2 * np.pi / (g.shape[k] * g.stride[k])):
                    return 'axis %d: reciprocal stride %r, expected 2 pi/(n s) = %r (grid shape %r, axes %r, shift %r, halfcomplex %r)' % (
                        k, rg.stride[k], 2 * np.pi / (g.shape[k] * g.stride[k]), g.shape, axes, shifts, hc)
            back = realspace_grid(rg, g.min_pt, axes=axes, halfcomplex=hc, halfcx_parity=parity)
            if back.shape != g.shape or not np.allclose(back.stride, g.stride) or not np.allclose(back.min_pt, g.min_pt):
                return 'realspace_grid(reciprocal_grid(g)) = %r differs from g = %r' % (back, g)
    return None


def check_dft(cfg):
    odl, np = _odl()
    rng = np.random.default_rng(5)
    sign, hc = cfg['sign'], cfg['halfcomplex']
    for shape in ((4,), (5,), (3, 4)):
        dom = odl.uniform_discr([0] * len(shape), [1] * len(shape), shape, dtype='float64' if hc else 'complex128')
        x = rng.standard_normal(shape) if hc else rng.standard_normal(shape) + 1j * rng.standard_normal(shape)
        for impl in ('numpy',):
            ft = odl.trafos.DiscreteFourierTransform(dom, sign=sign, halfcomplex=hc, impl=impl)
            y = ft(x).asarray()
            n = np.prod(shape)
            ref = np.fft.rfftn(x) if hc else (np.fft.fftn(x) if sign == '-' else n * np.fft.ifftn(x))
            if not np.allclose(y, ref):
                return 'DiscreteFourierTransform(sign=%r, halfcomplex=%r) on shape %r differs from numpy.fft' % (sign, hc, shape)
            if not np.allclose(ft.inverse(ft(x)).asarray(), x):
                return 'inverse(forward(x)) != x for sign=%r, halfcomplex=%r, shape %r' % (sign, hc, shape)
        # pyfftw back-end, also with a plan prepared by init_fftw_plan() and reused by a second call
        try:
            import pyfftw  # noqa: F401
        except ImportError:
            continue
        ref = np.fft.rfftn(x) if hc else (np.fft.fftn(x) if sign == '-' else np.prod(shape) * np.fft.ifftn(x))
        for planned in (False, True):
            ft = odl.trafos.DiscreteFourierTransform(dom, sign=sign, halfcomplex=hc, impl='pyfftw')
            inv = ft.inverse
            if planned:
                ft.init_fftw_plan(planning_effort='estimate')
                inv.init_fftw_plan(planning_effort='estimate')
            for call in range(2):
                y = ft(x.copy())
                if not np.allclose(y.asarray(), ref):
                    return 'pyfftw DiscreteFourierTransform(sign=%r, halfcomplex=%r)%s, call %d, shape %r differs from numpy.fft by %.3g' % (
                        sign, hc, ' with a plan prepared by init_fftw_plan()' if planned else '', call, shape, np.max(np.abs(y.asarray() - ref)))
                if not np.allclose(inv(y.copy()).asarray(), x):
                    return 'pyfftw inverse(forward(x)) != x%s for sign=%r, halfcomplex=%r, shape %r' % (' with prepared plans' if planned else '', sign, hc, shape)
    return None


def check_wavelet(cfg):
    odl, np = _odl()
    ndim, axes, cname = cfg['ndim'], tuple(cfg['axes']), cfg['class']
    sp = odl.uniform_discr([0.0] * ndim, [2.0, 3.0, 5.0][:ndim], [4, 8, 4][:ndim])       # cell sides 0.5, 0.375, 1.25
    for wname in ('db1', 'db2', 'sym3'):
        W = odl.trafos.WaveletTransform(sp, wname, nlevels=1, pad_mode='pywt_periodic', axes=axes)
        op = W if cname == 'WaveletTransform' else W.inverse
        x = odl.phantom.white_noise(op.domain, seed=3)
        y = odl.phantom.white_noise(op.range, seed=4)
        lhs, rhs = op(x).inner(y), x.inner(op.adjoint(y))
        if abs(lhs - rhs) > 1e-9 * max(1.0, abs(lhs)):
            return '%s(%s, axes=%s) on uniform_discr(%s, %s, %s): <A x, y> = %r but <x, A.adjoint y> = %r' % (
                cname, wname, axes, list(sp.min_pt), list(sp.max_pt), sp.shape, lhs, rhs)
    return None


def replay(ob):
    cfg = ob.get('config') or {}
    try:
        if ob['unit'].startswith('grid/'):
            bad = check_grid(cfg)
        elif ob['unit'].startswith('dft/'):
            bad = check_dft(cfg)
        elif ob['unit'].startswith('wavelet-adjoint/'):
            bad = check_wavelet(cfg)
        elif ob['unit'].startswith('wavelet-roundtrip/'):
            cfg = dict(ob.get('model') or (ob.get('replay') or {}).get('case'))
            bad = wavelet_check(cfg)[0]
        elif ob['unit'].startswith('ft-definition/'):
            cfg = ob.get('model') or (ob.get('replay') or {}).get('case')
            bad = ft_definition_check(cfg)[0]
        else:
            return {'reproduced': False, 'detail': 'no native concretisation for this obligation kind'}
    except Exception as e:
        return {'reproduced': False, 'detail': 'native evaluation raised %s: %s (not counted as a reproduction)' % (type(e).__name__, e)}
    return {'reproduced': bool(bad), 'detail': bad or 'holds natively on the pool', 'input': cfg}


# ---------------------------------------------------------------------------------------------------------------------------------
# bounded stand-in (never counted as proved): the continuous FourierTransform against its defining quadrature sum on every basis vector
# (the operator is linear, so agreement on a basis is agreement on all inputs of that shape, up to rounding)

def ft_definition_cases(tier='quick'):
    import itertools
    shapes = [(n,) for n in (2, 3, 4, 5, 6)] + [s for s in itertools.product((2, 3, 4), repeat=2)] + [(2, 3, 2), (3, 3, 2)]
    if tier == 'thorough':
        shapes += [s for s in itertools.product((2, 3, 4, 5), repeat=2) if s not in shapes] + [s for s in itertools.product((2, 3), repeat=3) if s not in shapes] + [(7,), (8,), (4, 4, 4)]
    for shape in shapes:
        nd = len(shape)
        subsets = [ax for r in range(1, nd + 1) for ax in itertools.combinations(range(nd), r)]
        for axes in subsets:
            for shifts in itertools.product((True, False), repeat=len(axes)):
                for sign in ('-', '+'):
                    for dtype, hc in (('complex128', False), ('float64', True), ('float64', False)):
                        if hc and (sign == '+' or not shifts[-1]):
                            continue        # documented restrictions of half-complex transforms (sign '-', shift in the halved axis)
                        yield dict(shape=list(shape), axes=list(axes), shifts=list(shifts), sign=sign, dtype=dtype, halfcomplex=hc)


def ft_definition_check(cfg, impls=('numpy', 'pyfftw')):
    """returns (None | description of the disagreement, number of basis vectors evaluated)"""
    odl, np = _odl()
    from odl.trafos.fourier import FourierTransform
    shape, axes, shifts, sign, hc = tuple(cfg['shape']), tuple(cfg['axes']), tuple(cfg['shifts']), cfg['sign'], cfg['halfcomplex']
    nd = len(shape)
    mins = [-1.0, 0.5, -2.5][:nd]
    maxs = [2.0, 3.5, -1.0][:nd]
    sp = odl.uniform_discr(mins, maxs, shape, dtype=cfg['dtype'])
    s = sp.cell_sides
    x0 = sp.grid.min_pt
    sg = -1.0 if sign == '-' else 1.0
    # expected reciprocal coordinates and the 1d factor matrices M_a[j, k]
    mats = []
    for i, a in enumerate(axes):
        n = shape[a]
        xi0 = -np.pi / s[a] if shifts[i] else -(np.pi / s[a]) * (1.0 - 1.0 / n)
        nout = n // 2 + 1 if (hc and a == axes[-1]) else n
        xi = xi0 + np.arange(nout) * 2 * np.pi / (n * s[a])
        xk = x0[a] + np.arange(n) * s[a]
        mats.append((a, xi, s[a] / np.sqrt(2 * np.pi) * np.sinc(xi * s[a] / (2 * np.pi))[:, None] * np.exp(sg * 1j * xi[:, None] * xk[None, :])))
    evals = 0
    results = {}
    for impl in impls:
        if impl == 'pyfftw' and not odl.trafos.PYFFTW_AVAILABLE:
            continue
        try:
            ft = FourierTransform(sp, axes=axes, shift=shifts if len(shifts) > 1 else shifts[0], sign=sign, halfcomplex=hc, impl=impl)
        except Exception as e:
            return 'constructor raised %s: %s' % (type(e).__name__, e), evals
        for a, xi, _ in mats:
            got = ft.range.grid.coord_vectors[a]
            if got.shape != xi.shape or not np.allclose(got, xi, rtol=1e-12, atol=1e-12):
                return 'reciprocal grid axis %d: %r, expected %r' % (a, got, xi), evals
        for idx in np.ndindex(*shape):
            e = np.zeros(shape, dtype=cfg['dtype'])
            e[idx] = 1.0
            x = sp.element(e)
            y = ft(x).asarray()
            evals += 1
            exp = e.astype('complex128')
            for a, xi, M in mats:
                exp = np.moveaxis(np.tensordot(M, exp, axes=(1, a)), 0, a)
            if y.shape != exp.shape or not np.allclose(y, exp, rtol=1e-9, atol=1e-11):
                return '%s: FourierTransform(e_%s) differs from the defining sum by %.3g (max abs)' % (impl, idx, float(np.max(np.abs(y - exp))) if y.shape == exp.shape else float('nan')), evals
            try:
                back = ft.inverse(ft(x)).asarray()
            except Exception as ex:
                return '%s: inverse(forward(e_%s)) raises %s: %s' % (impl, idx, type(ex).__name__, ex), evals
            if not np.allclose(back, e, rtol=1e-9, atol=1e-11):
                return '%s: inverse(forward(e_%s)) differs from e by %.3g' % (impl, idx, float(np.max(np.abs(back - e)))), evals
            out = ft.range.element()
            ft(x, out=out)
            if not np.allclose(out.asarray(), y, rtol=1e-12, atol=1e-13):
                return '%s: in-place and out-of-place evaluation differ on e_%s' % (impl, idx), evals
            results.setdefault(idx, []).append(y)
    for idx, ys in results.items():
        if len(ys) == 2 and not np.allclose(ys[0], ys[1], rtol=1e-9, atol=1e-11):
            return 'numpy and pyfftw back-ends differ on e_%s' % (idx,), evals
    return None, evals


# bounded stand-in: wavelet decomposition followed by reconstruction on every basis vector (linear for pad_const = 0), adjoint identity for
# orthogonal wavelets with periodic extension

WAVELETS = ('haar', 'db2', 'db3', 'sym2', 'sym4', 'coif1', 'bior1.3', 'bior2.2', 'rbio1.3', 'db4')      # not 'dmey': PyWavelets' discrete Meyer filter is itself only approximately reconstructing (1e-3)
WAV_PADS = ('constant', 'periodic', 'symmetric', 'order0', 'order1', 'pywt_periodic', 'reflect', 'antireflect', 'antisymmetric')


def wavelet_cases(tier='quick'):
    import itertools
    shapes = [(8,), (7,), (12,), (8, 6), (5, 8), (4, 6, 5)]
    if tier == 'thorough':
        shapes += [(16,), (9,), (9, 7), (8, 8, 4)]
    wavs = WAVELETS if tier == 'thorough' else WAVELETS[:8]
    for shape in shapes:
        nd = len(shape)
        subsets = [None] + [ax for r in range(1, nd) for ax in itertools.combinations(range(nd), r)]
        for wname in wavs:
            for pad in WAV_PADS:
                for axes in subsets:
                    for nlevels in (1, 2, None):
                        yield dict(shape=list(shape), wavelet=wname, pad_mode=pad, axes=None if axes is None else list(axes), nlevels=nlevels)


def wavelet_check(cfg):
    odl, np = _odl()
    shape = tuple(cfg['shape'])
    nd = len(shape)
    sp = odl.uniform_discr([0.0] * nd, [2.0, 3.0, 5.0][:nd], shape)
    axes = None if cfg['axes'] is None else tuple(cfg['axes'])
    try:
        W = odl.trafos.WaveletTransform(sp, cfg['wavelet'], nlevels=cfg['nlevels'], pad_mode=cfg['pad_mode'], axes=axes)
    except ValueError as e:
        return None, 0      # rejected configuration (e.g. too many levels for the size): outside the claim
    evals = 0
    Winv = W.inverse
    # periodization of an odd length repeats the last sample: the coefficient map is then redundant, not orthogonal
    odd = False
    for a in (range(nd) if axes is None else axes):
        n = shape[a]
        for _ in range(W.nlevels):
            odd = odd or n % 2 == 1
            n = (n + 1) // 2
    cfg['odd_length_at_some_level'] = odd
    for idx in np.ndindex(*shape):
        e = np.zeros(shape)
        e[idx] = 1.0
        x = sp.element(e)
        back = Winv(W(x)).asarray()
        evals += 1
        if back.shape != e.shape or not np.allclose(back, e, rtol=1e-9, atol=1e-10):
            return 'W.inverse(W(e_%s)) differs from e by %.3g' % (idx, float(np.max(np.abs(back - e))) if back.shape == e.shape else float('nan')), evals
    if W.is_orthogonal and cfg['pad_mode'] == 'pywt_periodic':
        x = odl.phantom.white_noise(W.domain, seed=5)
        y = odl.phantom.white_noise(W.range, seed=6)
        for op in (W, Winv):
            u, v = (x, y) if op is W else (y, x)
            lhs, rhs = op(u).inner(v), u.inner(op.adjoint(v))
            evals += 1
            if abs(lhs - rhs) > 1e-9 * max(1.0, abs(lhs)):
                return '%s: <A x, y> = %r but <x, A.adjoint y> = %r' % (type(op).__name__, lhs, rhs), evals
    return None, evals
