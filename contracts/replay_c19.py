"""Native search for a failing input of a C19 obligation: the real functions / geometry classes (CPython, NumPy floats) are evaluated
on random parameters (scalar and array-valued, broadcast pairs) and the relations named by the unit are checked numerically
(tolerance 1e-9): orthonormal rotation matrices with det 1, det_point_position == det_refpoint + R surface, det_to_src against
src_position, unit lengths, parallel ray direction constant / orthogonal to the detector axes, vectorised == entrywise."""
import os
import sys

TOL = 1e-9


def _odl():
    root = os.environ.get('PYVC_REPO', '/repo')
    if root not in sys.path:
        sys.path.insert(0, root)
    import warnings
    warnings.filterwarnings('ignore')
    import odl
    import numpy as np
    return odl, np


def is_rot(np, R):
    n = R.shape[-1]
    return np.allclose(R @ np.swapaxes(R, -1, -2), np.eye(n), atol=TOL) and np.allclose(np.linalg.det(R), 1.0, atol=TOL)


def check_rot(kind):
    odl, np = _odl()
    from odl.tomo.util.utility import euler_matrix, axis_rotation_matrix
    rng = np.random.default_rng(1)
    for t in range(30):
        for shape in ((), (3,), (2, 1)):
            a, b, c = [rng.uniform(-4, 4, shape) for _ in range(3)]
            if kind == 'euler2d':
                R = euler_matrix(a)
                single = lambda i: euler_matrix(a[i])
                n = 2
            elif kind == 'euler3d':
                R = euler_matrix(a, b, c)
                single = lambda i: euler_matrix(a[i], b[i], c[i])
                n = 3
            else:
                ax = rng.standard_normal(3)
                ax /= np.linalg.norm(ax)
                R = axis_rotation_matrix(ax, a)
                single = lambda i: axis_rotation_matrix(ax, a[i])
                n = 3
                if not np.allclose(R @ ax, ax, atol=TOL):
                    return 'axis_rotation_matrix(%r, %r) does not fix the axis' % (ax, a)
            if R.shape != shape + (n, n):
                return '%s: shape %r for parameter shape %r' % (kind, R.shape, shape)
            if not is_rot(np, R):
                return '%s(%r, %r, %r) is not a rotation: R R^T = %r, det = %r' % (kind, a, b, c, R @ np.swapaxes(R, -1, -2), np.linalg.det(R))
            for i in np.ndindex(*shape):
                if not np.allclose(R[i], single(i), atol=TOL):
                    return '%s: vectorised entry %r differs from the single evaluation' % (kind, i)
    return None


def geometries(kind):
    odl, np = _odl()
    rng = np.random.default_rng(2)
    T = odl.tomo
    for t in range(8):
        apart = odl.uniform_partition(0, 2 * np.pi, 7)
        d1 = odl.uniform_partition(-2, 2, 5)
        d2 = odl.uniform_partition([-2, -1], [2, 1], (5, 4))
        tr2, tr3 = rng.standard_normal(2), rng.standard_normal(3)
        ax = rng.standard_normal(3)
        if kind == 'parallel2d':
            yield T.Parallel2dGeometry(apart, d1, det_pos_init=rng.standard_normal(2), translation=tr2)
        elif kind == 'parallel3d_axis':
            yield T.Parallel3dAxisGeometry(apart, d2, axis=ax, translation=tr3)
        elif kind == 'parallel3d_euler':
            ap3 = odl.uniform_partition([0, 0, 0], [2 * np.pi, np.pi, 2 * np.pi], (3, 3, 3))
            yield T.Parallel3dEulerGeometry(ap3, d2, det_pos_init=rng.standard_normal(3), translation=tr3)
        elif kind == 'fanbeam':
            yield T.FanBeamGeometry(apart, d1, src_radius=rng.uniform(0.5, 3), det_radius=rng.uniform(0.5, 3), src_to_det_init=rng.standard_normal(2), translation=tr2)
        elif kind == 'fanbeam_curved':
            yield T.FanBeamGeometry(apart, odl.uniform_partition(-0.5, 0.5, 5), src_radius=rng.uniform(0.5, 3), det_radius=rng.uniform(0.5, 3), det_curvature_radius=rng.uniform(2, 5), translation=tr2)
        elif kind == 'conebeam':
            yield T.ConeBeamGeometry(apart, d2, src_radius=rng.uniform(0.5, 3), det_radius=rng.uniform(0.5, 3), axis=ax, pitch=rng.uniform(-2, 2), offset_along_axis=rng.uniform(-1, 1), translation=tr3)


def check_geom(kind):
    odl, np = _odl()
    rng = np.random.default_rng(3)
    for g in geometries(kind):
        mk = g.motion_params.ndim
        dk = g.det_params.ndim
        parallel = kind.startswith('parallel')
        lo_a, hi_a = g.motion_params.min_pt, g.motion_params.max_pt
        lo_u, hi_u = g.det_params.min_pt, g.det_params.max_pt
        for shape_a, shape_u in (((), ()), ((3,), ()), ((), (3,)), ((3,), (3,)), ((2, 1), (1, 3))):
            if kind == 'conebeam' and len(shape_a) > 1:
                continue
            a = tuple(rng.uniform(lo_a[k], hi_a[k], shape_a) for k in range(mk))
            u = tuple(rng.uniform(lo_u[k], hi_u[k], shape_u) for k in range(dk))
            a_ = a[0] if mk == 1 else a
            u_ = u[0] if dk == 1 else u
            bsh = np.broadcast_shapes(shape_a, shape_u)
            R, ref, pos, d2s = g.rotation_matrix(a_), g.det_refpoint(a_), g.det_point_position(a_, u_), g.det_to_src(a_, u_)
            n = g.ndim
            if R.shape != shape_a + (n, n) or ref.shape != shape_a + (n,) or pos.shape != bsh + (n,) or d2s.shape != bsh + (n,):
                return '%s: shapes R %r ref %r pos %r d2s %r for parameter shapes %r, %r' % (kind, R.shape, ref.shape, pos.shape, d2s.shape, shape_a, shape_u)
            if not is_rot(np, R):
                return '%s: rotation_matrix(%r) is not a rotation' % (kind, a_)
            if not np.allclose(np.linalg.norm(d2s, axis=-1), 1.0, atol=TOL):
                return '%s: det_to_src not of unit length at %r, %r' % (kind, a_, u_)
            for b in np.ndindex(*bsh):
                ia = b[len(b) - len(shape_a):] if shape_a else ()
                ia = tuple(0 if shape_a[k] == 1 else ia[k] for k in range(len(shape_a)))
                iu = b[len(b) - len(shape_u):] if shape_u else ()
                iu = tuple(0 if shape_u[k] == 1 else iu[k] for k in range(len(shape_u)))
                a1 = tuple(x[ia] for x in a)
                u1 = tuple(x[iu] for x in u)
                a1_ = a1[0] if mk == 1 else a1
                u1_ = u1[0] if dk == 1 else u1
                R1, ref1, pos1 = g.rotation_matrix(a1_), g.det_refpoint(a1_), g.det_point_position(a1_, u1_)
                surf = g.detector.surface(u1_)
                if not np.allclose(pos[b], pos1, atol=TOL) or not np.allclose(d2s[b], g.det_to_src(a1_, u1_), atol=TOL):
                    return '%s: vectorised entry %r differs from the single evaluation' % (kind, b)
                if not np.allclose(pos1, ref1 + R1 @ surf, atol=TOL):
                    return '%s: det_point_position(%r, %r) != det_refpoint + R surface' % (kind, a1_, u1_)
                axes = np.atleast_2d(g.det_axis(a1_) if dk == 1 else g.det_axes(a1_))
                if parallel:
                    if not np.allclose(g.det_to_src(a1_, u1_), g.det_to_src(a1_, tuple(lo_u) if dk > 1 else lo_u[0]), atol=TOL):
                        return '%s: parallel ray direction depends on the detector point' % kind
                    if not np.allclose(axes @ g.det_to_src(a1_, u1_), 0, atol=TOL):
                        return '%s: parallel ray direction not orthogonal to the detector axes at %r' % (kind, a1_)
                else:
                    raw = g.det_to_src(a1_, u1_, normalized=False)
                    if not np.allclose(raw, g.src_position(a1_) - pos1, atol=TOL):
                        return '%s: det_to_src != src_position - det_point_position at %r, %r' % (kind, a1_, u1_)
                    if not np.isclose(np.linalg.norm(g.det_refpoint(a1_) - g.src_position(a1_)), g.src_radius + g.det_radius, atol=1e-8):
                        return '%s: |det_refpoint - src_position| != src_radius + det_radius at %r' % (kind, a1_)
    return None


def check_det(kind):
    odl, np = _odl()
    T = odl.tomo
    rng = np.random.default_rng(4)
    for t in range(10):
        if kind == 'flat1d':
            d = T.Flat1dDetector(odl.uniform_partition(-2, 2, 5), axis=rng.standard_normal(2))
        elif kind == 'circular':
            d = T.CircularDetector(odl.uniform_partition(-1, 1, 5), axis=rng.standard_normal(2), radius=rng.uniform(1.5, 4))
        else:
            d = T.Flat2dDetector(odl.uniform_partition([-2, -1], [2, 1], (5, 4)), axes=[rng.standard_normal(3), rng.standard_normal(3)])
        zero = 0.0 if d.ndim == 1 else (0.0, 0.0)
        if not np.allclose(d.surface(zero), 0, atol=TOL):
            return '%s: surface(0) = %r is not the reference point' % (kind, d.surface(zero))
        ax_given = np.atleast_2d(d.axis if d.ndim == 1 else d.axes)
        want = ax_given * (getattr(d, 'radius', 1.0))
        if not np.allclose(np.atleast_2d(d.surface_deriv(zero)), want, atol=TOL):
            return '%s: surface_deriv(0) = %r, expected [radius *] axis = %r (detector not aligned with its axis)' % (kind, d.surface_deriv(zero), want)
        for shape in ((), (3,)):
            u = tuple(rng.uniform(d.params.min_pt[k], d.params.max_pt[k], shape) for k in range(d.ndim))
            u_ = u[0] if d.ndim == 1 else u
            h = 1e-6
            for i in np.ndindex(*shape):
                u1 = tuple(x[i] for x in u)
                for k in range(d.ndim):
                    up = list(u1)
                    up[k] = up[k] + h
                    um = list(u1)
                    um[k] = um[k] - h
                    f = lambda v: d.surface(v[0] if d.ndim == 1 else tuple(v))
                    fd = (f(up) - f(um)) / (2 * h)
                    der = d.surface_deriv(u1[0] if d.ndim == 1 else u1)
                    der = der if d.ndim == 1 else der[k]
                    if not np.allclose(fd, der, atol=1e-5):
                        return '%s: surface_deriv at %r differs from the difference quotient' % (kind, u1)
                nrm = d.surface_normal(u1[0] if d.ndim == 1 else u1)
                if not np.isclose(np.linalg.norm(nrm), 1.0, atol=TOL):
                    return '%s: surface_normal not of unit length' % kind
                if not np.allclose(np.atleast_2d(d.surface_deriv(u1[0] if d.ndim == 1 else u1)) @ nrm, 0, atol=TOL):
                    return '%s: surface_normal not orthogonal to the derivative' % kind
            for nm in ('surface', 'surface_deriv', 'surface_normal', 'surface_measure'):
                full = getattr(d, nm)(u_)
                for i in np.ndindex(*shape):
                    u1 = tuple(x[i] for x in u)
                    if not np.allclose(np.asarray(full)[i], getattr(d, nm)(u1[0] if d.ndim == 1 else u1), atol=TOL):
                        return '%s.%s: vectorised entry %r differs from the single evaluation' % (kind, nm, i)
    return None


def check_factory(ndim):
    odl, np = _odl()
    doms = [([-3, -1], [1, 2]), ([0.5, -4], [2, -1]), ([-1, -1], [1, 1]), ([-5, 1], [-2, 6])]
    for lo, hi in doms:
        if ndim == 3:
            lo, hi = lo + [-1], hi + [2]
        space = odl.uniform_discr(lo, hi, [8] * ndim)
        g = odl.tomo.parallel_beam_geometry(space)
        corners = space.domain.corners()
        dmin, dmax = g.det_params.min_pt, g.det_params.max_pt
        for a in np.linspace(0, np.pi, 13):
            e = np.array([np.cos(a), np.sin(a)])
            proj = corners[:, :2] @ e
            if proj.min() < dmin[0] - 1e-12 or proj.max() > dmax[0] + 1e-12:
                return 'parallel_beam_geometry(%r): detector range [%r, %r] does not cover the projection [%r, %r] of the volume at angle %r' % (space, dmin[0], dmax[0], proj.min(), proj.max(), a)
        if ndim == 3 and (corners[:, 2].min() < dmin[1] - 1e-12 or corners[:, 2].max() > dmax[1] + 1e-12):
            return 'vertical detector range does not cover the volume'
    return None


def check_cone_factory():
    odl, np = _odl()
    for lo, hi, rs, rd in (([-1, -1], [1, 1], 2.0, 2.0), ([-1, -1], [1, 1], 3.0, 9.0), ([0, 0], [2, 2], 4.0, 1.0)):
        space = odl.uniform_discr(lo, hi, (20, 20))
        g = odl.tomo.cone_beam_geometry(space, src_radius=rs, det_radius=rd)
        corners = space.domain.corners()
        worst = 0.0
        for a in np.linspace(0, 2 * np.pi, 721):
            src, ref, ax = g.src_position(a), g.det_refpoint(a), g.det_axis(a)
            n = (ref - src) / np.linalg.norm(ref - src)
            for p in corners:
                d = p - src
                hit = src + np.dot(ref - src, n) / np.dot(d, n) * d
                worst = max(worst, abs(np.dot(hit - ref, ax)))
        half = g.det_params.max_pt[0]
        if worst > half * (1 + 1e-9):
            return ('cone_beam_geometry(uniform_discr(%r, %r, (20, 20)), src_radius=%r, det_radius=%r): the rays through the volume corners reach detector coordinate |u| = %.6g, '
                    'the detector only spans [-%.6g, %.6g]' % (lo, hi, rs, rd, worst, half, half))
    return None


def check_slicing(cname):
    odl, np = _odl()
    T = odl.tomo
    apart = odl.uniform_partition(0, np.pi, 6)
    d1 = odl.uniform_partition(-1, 1, 4)
    d2 = odl.uniform_partition([-1, -1], [1, 1], (4, 4))
    geoms = {'Parallel2dGeometry': [T.Parallel2dGeometry(apart, d1, translation=(1.0, 2.0)), T.Parallel2dGeometry(apart, d1, det_pos_init=(0.5, 1.5), translation=(1.0, 2.0))],
             'Parallel3dAxisGeometry': [T.Parallel3dAxisGeometry(apart, d2, axis=(1, 1, 0), det_pos_init=(0.5, -0.5, 0.2), translation=(1.0, 2.0, 0.5))],
             'FanBeamGeometry': [T.FanBeamGeometry(apart, d1, 2.0, 3.0, src_to_det_init=(1, 1), translation=(1.0, 2.0)),
                                 T.FanBeamGeometry(apart, odl.uniform_partition(-0.5, 0.5, 4), 2.0, 3.0, det_curvature_radius=4.0, translation=(1.0, 2.0))],
             'ConeBeamGeometry': [T.ConeBeamGeometry(apart, d2, 2.0, 3.0, axis=(0, 1, 1), translation=(1.0, 2.0, 0.5), pitch=1.0, offset_along_axis=0.3)]}
    # the same geometries with the vector arguments given as float ndarrays owned by the caller (the constructors keep references to them): the geometry and its slices must be those of the same values given as tuples
    owned = {'Parallel2dGeometry': dict(det_pos_init=np.array([0.5, 1.5]), translation=np.array([1.0, 2.0])),
             'Parallel3dAxisGeometry': dict(det_pos_init=np.array([0.5, -0.5, 0.2]), translation=np.array([1.0, 2.0, 0.5]), axis=np.array([1.0, 1.0, 0.0])),
             'FanBeamGeometry': dict(src_to_det_init=np.array([1.0, 1.0]), translation=np.array([1.0, 2.0])),
             'ConeBeamGeometry': dict(axis=np.array([0.0, 1.0, 1.0]), translation=np.array([1.0, 2.0, 0.5]))}
    if cname in owned:
        kw = owned[cname]
        keep = {k: v.copy() for k, v in kw.items()}
        if cname == 'Parallel2dGeometry':
            g_arr, g_tup = T.Parallel2dGeometry(apart, d1, **kw), T.Parallel2dGeometry(apart, d1, **{k: tuple(v) for k, v in keep.items()})
        elif cname == 'Parallel3dAxisGeometry':
            g_arr, g_tup = T.Parallel3dAxisGeometry(apart, d2, **kw), T.Parallel3dAxisGeometry(apart, d2, **{k: tuple(v) for k, v in keep.items()})
        elif cname == 'FanBeamGeometry':
            g_arr, g_tup = T.FanBeamGeometry(apart, d1, 2.0, 3.0, **kw), T.FanBeamGeometry(apart, d1, 2.0, 3.0, **{k: tuple(v) for k, v in keep.items()})
        else:
            g_arr, g_tup = T.ConeBeamGeometry(apart, d2, 2.0, 3.0, **kw), T.ConeBeamGeometry(apart, d2, 2.0, 3.0, **{k: tuple(v) for k, v in keep.items()})
        sub = g_arr[1:4]
        a_ = g_arr.angles[2]
        if not np.allclose(g_arr.det_refpoint(a_), g_tup.det_refpoint(a_)) or not np.allclose(sub.det_refpoint(a_), g_tup.det_refpoint(a_)):
            return '%s built from float ndarrays %r: det_refpoint(%r) = %r (slice: %r), built from the same values as tuples: %r' % (
                cname, {k: v.tolist() for k, v in keep.items()}, a_, g_arr.det_refpoint(a_), sub.det_refpoint(a_), g_tup.det_refpoint(a_))
        geoms[cname] = geoms.get(cname, []) + [g_arr]
    for g in geoms.get(cname, []):
        a = g.angles[2]
        u = tuple(x[1] for x in g.det_grid.coord_vectors)
        u = u[0] if len(u) == 1 else u
        before = {nm: np.array(getattr(g, nm)(a)) for nm in ('det_refpoint', 'rotation_matrix')}
        before['pos'] = np.array(g.det_point_position(a, u))
        before['d2s'] = np.array(g.det_to_src(a, u))
        s = g[1:4]
        for nm in ('det_refpoint', 'rotation_matrix'):
            if not np.allclose(getattr(s, nm)(a), before[nm]):
                return '%r[1:4].%s(%r) = %r, parent %r' % (g, nm, a, getattr(s, nm)(a), before[nm])
            if not np.allclose(getattr(g, nm)(a), before[nm]):
                return 'slicing %r changed the PARENT: %s(%r) was %r, now %r' % (g, nm, a, before[nm], getattr(g, nm)(a))
        if not np.allclose(s.det_point_position(a, u), before['pos']) or not np.allclose(s.det_to_src(a, u), before['d2s']):
            return '%r[1:4]: det_point_position / det_to_src differ from the parent at angle %r' % (g, a)
    return None


def replay(ob):
    parts = ob['unit'].split('/')
    if parts[0] in ('slicing', 'slicing-native'):
        try:
            bad = check_slicing(parts[1])
        except Exception as e:
            return {'reproduced': False, 'detail': 'native evaluation raised %s: %s' % (type(e).__name__, e)}
        return {'reproduced': bool(bad), 'detail': bad or 'slices agree with their parent natively'}
    if parts[0] == 'factory' and 'cone_beam_geometry' in ob['unit']:
        if 'full horizontal coverage' not in str(ob.get('name', '')):
            return {'reproduced': False, 'detail': 'no native concretisation for this obligation kind'}
        try:
            bad = check_cone_factory()
        except Exception as e:
            return {'reproduced': False, 'detail': 'native evaluation raised %s: %s' % (type(e).__name__, e)}
        return {'reproduced': bool(bad), 'detail': bad or 'the fan-beam detector covers the volume natively'}
    if parts[0] == 'factory':
        try:
            bad = check_factory(int((ob.get('config') or {}).get('ndim', 2)))
        except Exception as e:
            return {'reproduced': False, 'detail': 'native evaluation raised %s: %s' % (type(e).__name__, e)}
        return {'reproduced': bool(bad), 'detail': bad or 'the detector covers the volume natively'}
    try:
        if parts[0] == 'rot':
            bad = check_rot(parts[1])
        elif parts[0] in ('det', 'ctor'):
            bad = check_det(parts[1])
        elif parts[0] == 'geom':
            bad = check_geom(parts[1])
        else:
            return {'reproduced': False, 'detail': 'no native concretisation for this obligation kind'}
    except Exception as e:
        return {'reproduced': False, 'detail': 'native evaluation raised %s: %s (not counted as a reproduction)' % (type(e).__name__, e)}
    return {'reproduced': bool(bad), 'detail': bad or 'relations hold natively on random parameters'}


def check_factory_mirror(factory):
    """a volume and its mirror image in z (and in x, y) are related by a rigid reflection, so the factory must give detectors that are mirror images of each other:
    the detectors are symmetric intervals, hence equal extents and shapes"""
    odl, np = _odl()
    make = getattr(odl.tomo, factory)
    kw = dict(src_radius=6.0, det_radius=9.0) if factory != 'parallel_beam_geometry' else {}
    for lo, hi in (([-1, -1, -3], [1, 1, 1]), ([-2, -1, 0.5], [1, 2, 2.5]), ([-1, -1, -2], [1, 1, 2])):
        shape = (8, 8, 8)
        a = odl.uniform_discr(lo, hi, shape)
        b = odl.uniform_discr([lo[0], lo[1], -hi[2]], [hi[0], hi[1], -lo[2]], shape)
        ga, gb = make(a, **kw), make(b, **kw)
        da, db = ga.det_partition, gb.det_partition
        # axis 0 (in-plane) equal; axis 1 (axial) mirrored: [a, b] <-> [-b, -a]
        if da.shape != db.shape or not np.isclose(da.min_pt[0], db.min_pt[0]) or not np.isclose(da.max_pt[0], db.max_pt[0]) or \
                not np.isclose(db.min_pt[1], -da.max_pt[1]) or not np.isclose(db.max_pt[1], -da.min_pt[1]):
            return '%s: volume z in [%g, %g] gets detector %r x %r, its mirror image z in [%g, %g] gets %r x %r' % (factory, lo[2], hi[2], da.min_pt, da.max_pt, -hi[2], -lo[2], db.min_pt, db.max_pt)
        # the detector height must not be smaller than the height for the sub-volume that is symmetric in z (it contains it)
        zs = min(abs(lo[2]), abs(hi[2]))
        if lo[2] < 0 < hi[2]:
            c = odl.uniform_discr([lo[0], lo[1], -zs], [hi[0], hi[1], zs], shape)
            dc = make(c, **kw).det_partition
            if da.max_pt[1] < dc.max_pt[1] - 1e-9:
                return '%s: the volume z in [%g, %g] gets a SHORTER detector (%g) than its sub-volume z in [%g, %g] (%g)' % (factory, lo[2], hi[2], da.max_pt[1], -zs, zs, dc.max_pt[1])
    return None
