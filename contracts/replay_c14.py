"""Native replay of C14 obligations on a pool of concrete partitions (uniform / non-uniform, all nodes_on_bdry pairs, 1-d and 2-d, single-cell axes, shared grids):
boundaries, cell sizes, boundary fractions, index (integer and floating), uniform_partition parameter completion, cell_sides / stride freshness."""
import itertools
import os
import sys


def _odl():
    root = os.environ.get('PYVC_REPO', '/repo')
    if root not in sys.path:
        sys.path.insert(0, root)
    import warnings
    warnings.filterwarnings('ignore')
    import odl
    import numpy as np
    return odl, np


def pool(odl, np):
    ps = []
    for bl, br in itertools.product((False, True), repeat=2):
        for n in (2, 3, 6):
            ps.append(odl.uniform_partition(-1.0, 2.0, n, nodes_on_bdry=[(bl, br)]))
        ps.append(odl.uniform_partition([0.0, -1.0], [1.0, 2.0], (4, 3), nodes_on_bdry=[(bl, br), (br, bl)]))
    ps.append(odl.nonuniform_partition([0.0, 0.5, 2.0, 2.5, 4.0], min_pt=-0.5, max_pt=4.5))
    ps.append(odl.nonuniform_partition([0.0, 1.0, 3.0], nodes_on_bdry=True))
    ps.append(odl.uniform_partition([0.0, -1.0], [1.0, 2.0], (4, 1)))
    return ps


def check_boundaries(odl, np):
    for p in pool(odl, np):
        for ax in range(p.ndim):
            b, g = p.cell_boundary_vecs[ax], p.grid.coord_vectors[ax]
            if abs(b[0] - p.min_pt[ax]) > 1e-12 or abs(b[-1] - p.max_pt[ax]) > 1e-12 or len(b) != len(g) + 1:
                return '%r: boundaries %r do not run from min_pt to max_pt' % (p, b)
            if len(g) > 1 and not np.allclose(b[1:-1], (g[1:] + g[:-1]) / 2):
                return '%r: interior boundaries %r are not the midpoints of %r' % (p, b, g)
            if np.any(np.diff(b) <= 0):
                return '%r: boundaries not increasing' % (p,)
    return None


def check_sizes(odl, np):
    for p in pool(odl, np):
        for ax in range(p.ndim):
            if p.shape[ax] == 1:
                continue          # recorded finding: single-node axes
            cs, b = p.cell_sizes_vecs[ax], p.cell_boundary_vecs[ax]
            g = p.grid.coord_vectors[ax]
            inner = np.diff(b)
            if not np.allclose(cs, inner, rtol=1e-12, atol=1e-12):
                return '%r axis %d: cell_sizes_vecs %r differ from the differences of the cell boundaries %r (sum %r, extent %r)' % (p, ax, cs, inner, cs.sum(), p.extent[ax])
            fr_l, fr_r = p.boundary_cell_fractions[ax]
            wl, wr = 0.5 + (g[0] - p.min_pt[ax]) / (g[1] - g[0]), 0.5 + (p.max_pt[ax] - g[-1]) / (g[-1] - g[-2])
            if abs(fr_l - wl) > 1e-9 or abs(fr_r - wr) > 1e-9:
                return '%r axis %d: boundary_cell_fractions (%r, %r), expected (%r, %r)' % (p, ax, fr_l, fr_r, wl, wr)
    return None


def check_index(odl, np, floating):
    rng = np.random.default_rng(1)
    for p in pool(odl, np):
        for _ in range(40):
            x = np.array([rng.uniform(p.min_pt[a], p.max_pt[a]) for a in range(p.ndim)])
            try:
                idx = p.index(x if p.ndim > 1 else float(x[0]), floating=floating)
            except Exception as e:
                return '%r.index(%r, floating=%r) raised %s: %s' % (p, x, floating, type(e).__name__, e)
            idx = np.atleast_1d(np.asarray(idx, dtype=float))
            for a in range(p.ndim):
                b = p.cell_boundary_vecs[a]
                if not np.isfinite(idx[a]):
                    return '%r.index(%r, floating=%r) = %r: not finite in axis %d' % (p, x, floating, idx, a)
                k = int(np.floor(idx[a])) if floating else int(idx[a])
                k = min(max(k, 0), p.shape[a] - 1) if floating and idx[a] == p.shape[a] else k
                if not (0 <= k < p.shape[a]) or not (b[k] - 1e-12 <= x[a] <= b[k + 1] + 1e-12):
                    return '%r.index(%r, floating=%r) = %r: the point is not in cell %d = [%r, %r] of axis %d' % (p, x, floating, idx, k, b[max(k, 0)] if 0 <= k < len(b) else None, b[k + 1] if 0 <= k + 1 < len(b) else None, a)
                if floating:
                    want = k + (x[a] - b[k]) / (b[k + 1] - b[k])
                    if not np.isfinite(idx[a]) or abs(idx[a] - want) > 1e-9:
                        return '%r.index(%r, floating=True) = %r: expected %r in axis %d (cell %d = [%r, %r])' % (p, x, idx, want, a, k, b[k], b[k + 1])
    return None


def check_uniform(odl, np):
    for bl, br in itertools.product((False, True), repeat=2):
        n, lo, hi = 5, -1.0, 2.5
        denom = n - 0.5 * bl - 0.5 * br
        cs = (hi - lo) / denom
        for nb in ([(bl, br)], (bl, br)):           # per-axis list of pairs, and the 1-d spelling as one pair (left, right)
            cases = {'max_pt': dict(min_pt=lo, shape=n, cell_sides=cs), 'min_pt': dict(max_pt=hi, shape=n, cell_sides=cs), 'shape': dict(min_pt=lo, max_pt=hi, cell_sides=cs),
                     'cell_sides': dict(min_pt=lo, max_pt=hi, shape=n)}
            for missing, kw in cases.items():
                try:
                    p = odl.uniform_partition(nodes_on_bdry=nb, **kw)
                except Exception as e:
                    return 'uniform_partition(%r, nodes_on_bdry=%r) raised %s: %s' % (kw, nb, type(e).__name__, e)
                if abs(p.min_pt[0] - lo) > 1e-9 or abs(p.max_pt[0] - hi) > 1e-9 or p.shape != (n,) or abs(p.cell_sides[0] - cs) > 1e-9:
                    return 'uniform_partition(%r, nodes_on_bdry=%r): min_pt %r, max_pt %r, shape %r, cell_sides %r; expected %r, %r, (%d,), %r' % (
                        kw, nb, p.min_pt, p.max_pt, p.shape, p.cell_sides, lo, hi, n, cs)
                g = p.grid.coord_vectors[0]
                if abs(g[0] - (lo + (0 if bl else cs / 2))) > 1e-9 or abs(g[-1] - (hi - (0 if br else cs / 2))) > 1e-9:
                    return 'uniform_partition(%r, nodes_on_bdry=%r): grid runs from %r to %r' % (kw, nb, g[0], g[-1])
    return None


def check_sides(odl, np):
    # two partitions sharing ONE grid object with a single-node axis and different extents; cell_sides read on one, then on the other
    g = odl.uniform_grid([0.125, 0.5], [0.875, 0.5], (4, 1))
    p1 = odl.RectPartition(odl.IntervalProd([0.0, -1.0], [1.0, 2.0]), g)
    p2 = odl.RectPartition(odl.IntervalProd([0.0, -3.0], [1.0, 3.0]), g)
    for p in (p1, p2, p1):
        cs = p.cell_sides
        if not np.allclose(cs * np.array(p.shape), p.extent):
            return 'cell_sides %r times shape %r is not the extent %r of %r (the grid is shared with a partition of another extent)' % (cs, p.shape, p.extent, p)
        cs[:] = -7.0          # the caller owns the returned array
        if np.any(p.cell_sides < 0) or np.any(p.grid.stride < 0):
            return 'writing into the array returned by cell_sides changed later results: %r' % (p.cell_sides,)
    s = g.stride
    s[:] = -7.0
    if np.any(g.stride < 0):
        return 'RectGrid.stride hands out its cache: writing into the result changed later results %r' % (g.stride,)
    return None


def subpartition_cases(odl, np):
    """(case, failure-or-None) for sub-partitions p[idx], p.byaxis[...], p.squeeze(), p.insert / append of pool partitions"""
    ps = pool(odl, np)
    ps.append(odl.uniform_partition([0.0, -1.0, 2.0], [1.0, 2.0, 3.0], (4, 3, 2), nodes_on_bdry=[(True, False), (False, False), (False, True)]))
    ps.append(odl.nonuniform_partition([0.0, 1.0, 3.0, 3.5], [-1.0, 2.0, 2.5], min_pt=[-0.5, -2.0], max_pt=[4.0, 3.0]))

    def invariants(q):
        for ax in range(q.ndim):
            b, g = q.cell_boundary_vecs[ax], q.grid.coord_vectors[ax]
            if len(b) != len(g) + 1 or abs(b[0] - q.min_pt[ax]) > 1e-12 or abs(b[-1] - q.max_pt[ax]) > 1e-12:
                return 'axis %d: boundaries %r do not run from min_pt %r to max_pt %r' % (ax, b, q.min_pt[ax], q.max_pt[ax])
            if np.any(np.diff(b) < 0) or np.any(g < b[:-1] - 1e-12) or np.any(g > b[1:] + 1e-12):
                return 'axis %d: node %r outside its own cell, boundaries %r' % (ax, g, b)
        return None
    for pi, p in enumerate(ps):
        n0 = p.shape[0]
        exprs = [slice(None), slice(1, None), slice(None, -1), slice(1, n0 - 1) if n0 > 2 else slice(0, 1), slice(None, None, 2), 0, n0 - 1, -1, [0], [0, n0 - 1], Ellipsis]
        if p.ndim >= 2:
            n1 = p.shape[1]
            exprs += [(slice(1, None), slice(None, n1 - 1 if n1 > 1 else None)), (0, slice(None)), (slice(None), n1 - 1), (Ellipsis, 0), (slice(None, None, 2), Ellipsis)]
        if p.ndim >= 3:
            exprs += [(slice(1, 3), Ellipsis, slice(0, 1)), (1, Ellipsis), (slice(None), 1, slice(None))]
        for e in exprs:
            case = {'partition': repr(p), 'index': repr(e)}
            try:
                q = p[e]
            except Exception as ex:
                yield case, 'p[%r] raised %s: %s' % (e, type(ex).__name__, ex)
                continue
            bad = invariants(q)
            if not bad and not isinstance(e, list):
                # the selected cells are cells of the parent: end points are parent boundaries, nodes are parent nodes
                full = e if isinstance(e, tuple) else (e,)
                if Ellipsis in full:
                    k = full.index(Ellipsis)
                    full = full[:k] + (slice(None),) * (p.ndim - len(full) + 1) + full[k + 1:]
                full = full + (slice(None),) * (p.ndim - len(full))
                if q.ndim != p.ndim:
                    bad = 'p[%r] has %d axes, the parent %d (integers keep their axis)' % (e, q.ndim, p.ndim)
                for ax, idx in enumerate(full):
                    if bad:
                        break
                    pb, pg = p.cell_boundary_vecs[ax], p.grid.coord_vectors[ax]
                    sel = np.arange(p.shape[ax])[idx if isinstance(idx, slice) else slice(idx, idx + 1 if idx != -1 else None)]
                    if len(sel) == 0:
                        continue
                    if not np.allclose(q.grid.coord_vectors[ax], pg[sel]):
                        bad = 'axis %d: nodes %r are not the selected parent nodes %r' % (ax, q.grid.coord_vectors[ax], pg[sel])
                    else:
                        # documented: a step does not change the extent - the sub-partition spans the cells start .. stop of the parent
                        span = np.arange(p.shape[ax])[slice(idx.start, idx.stop, None)] if isinstance(idx, slice) else sel
                        if abs(q.min_pt[ax] - pb[span[0]]) > 1e-12 or abs(q.max_pt[ax] - pb[span[-1] + 1]) > 1e-12:
                            bad = 'axis %d: [%r, %r] is not the union of the parent cells %d .. %d = [%r, %r]' % (ax, q.min_pt[ax], q.max_pt[ax], span[0], span[-1], pb[span[0]], pb[span[-1] + 1])
            yield case, (('p[%r] of %r: ' % (e, p)) + bad) if bad else None
        # byaxis / squeeze / insert / append keep (end points, nodes) together per axis
        def axis_records(q):
            return [(round(float(q.min_pt[a]), 12), round(float(q.max_pt[a]), 12), tuple(np.round(q.grid.coord_vectors[a], 12))) for a in range(q.ndim)]
        rec = axis_records(p)
        for sel in ([0], [p.ndim - 1], list(range(p.ndim))[::-1], [0, 0]):
            case = {'partition': repr(p), 'byaxis': repr(sel)}
            try:
                q = p.byaxis[sel]
                bad = None if axis_records(q) == [rec[i] for i in sel] else 'byaxis[%r] of %r: axes %r, expected %r' % (sel, p, axis_records(q), [rec[i] for i in sel])
            except Exception as ex:
                bad = 'byaxis[%r] raised %s: %s' % (sel, type(ex).__name__, ex)
            yield case, bad
        others = [ps[(pi + 1) % len(ps)], ps[(pi + 5) % len(ps)], ps[-1]]
        for index in range(-p.ndim, p.ndim + 1):
            for grp in ([others[0]], others[:2], [others[2], others[0]], others):
                case = {'partition': repr(p), 'insert': index, 'others': [repr(o) for o in grp]}
                pos = index + p.ndim if index < 0 else index
                want = rec[:pos] + [r for o in grp for r in axis_records(o)] + rec[pos:]
                try:
                    q = p.insert(index, *grp)
                    bad = None if axis_records(q) == want else 'insert(%d, %d partitions with ndim %r) into %r: axes %r, expected %r' % (index, len(grp), [o.ndim for o in grp], p, axis_records(q), want)
                    bad = bad or invariants(q)
                except Exception as ex:
                    bad = 'insert raised %s: %s' % (type(ex).__name__, ex)
                yield case, bad
        case = {'partition': repr(p), 'squeeze': True}
        try:
            q = p.squeeze()
            keep = [a for a in range(p.ndim) if p.shape[a] != 1]
            bad = None if axis_records(q) == [rec[a] for a in keep] else 'squeeze of %r: axes %r, expected %r' % (p, axis_records(q), [rec[a] for a in keep])
        except Exception as ex:
            bad = 'squeeze raised %s: %s' % (type(ex).__name__, ex)
        yield case, bad


def replay(ob):
    odl, np = _odl()
    unit = ob.get('unit', '')
    if unit.startswith('subpart'):
        try:
            bads = [b for c, b in subpartition_cases(odl, np) if b and ('insert' in c or not unit.startswith('subpart/'))]
        except Exception as e:
            return {'reproduced': False, 'detail': 'replay harness error: %r' % (e,)}
        return {'reproduced': bool(bads), 'detail': bads[0] if bads else 'holds on the native partition pool'}
    try:
        if unit.startswith('bdry/'):
            bad = check_boundaries(odl, np)
        elif unit.startswith('sizes/'):
            bad = check_sizes(odl, np)
        elif unit.startswith('index/'):
            bad = check_index(odl, np, 'floating' in unit)
        elif unit.startswith('uniform/partition'):
            bad = check_uniform(odl, np)
        elif unit.startswith('sides/'):
            bad = check_sides(odl, np)
        else:
            return None
    except Exception as e:
        return {'reproduced': False, 'detail': 'replay harness error: %r' % (e,)}
    return {'reproduced': bool(bad), 'detail': bad or 'holds on the native partition pool'}
