"""Native replay of adjoint obligations for default operators: build the real operator on small
weighted spaces and compare <A x, y> with <x, A* y> (real part for real<->complex), domain/range."""
import os
import sys


def replay(ob):
    info = ob.get('info') or {}
    cls, variant, field = info.get('class'), info.get('variant'), info.get('field', 'real')
    root = os.environ.get('PYVC_REPO', '/repo')
    if root not in sys.path:
        sys.path.insert(0, root)
    import odl
    import numpy as np
    from odl.operator import default_ops as D
    if str(ob.get('unit', '')).startswith('expr-mixed/'):
        rng = np.random.default_rng(7)
        X = odl.rn(3, weighting=0.7)
        A = D.ComplexEmbedding(X, scalar=complex(0.6, -0.8))
        Y = A.range
        A = odl.operator.operator.OperatorComp(D.ScalingOperator(Y, complex(0.3, 1.1)), A) if False else A
        left = 'Left' in str(ob.get('unit'))
        vec = Y.element(rng.standard_normal(3) + 1j * rng.standard_normal(3)) if left else X.element(rng.standard_normal(3))
        from odl.operator.operator import OperatorLeftVectorMult, OperatorRightVectorMult
        op = OperatorLeftVectorMult(A, vec) if left else OperatorRightVectorMult(A, vec)
        x, y = X.element(rng.standard_normal(3)), Y.element(rng.standard_normal(3) + 1j * rng.standard_normal(3))
        l, r = complex(Y.inner(op(x), y)).real, float(X.inner(x, op.adjoint(y)))
        bad = abs(l - r) > 1e-9 * (1 + abs(l))
        return {'reproduced': bool(bad), 'detail': 'Re<Ax,y> = %r, <x,A*y> = %r for %r' % (l, r, op) if bad else 'mixed real/complex adjoint identity holds natively',
                'input': {'class': cls, 'space': 'rn(3) -> cn(3)'}}
    if not hasattr(D, str(cls)):
        return {'reproduced': False, 'detail': 'no native concretisation for this obligation kind'}
    rng = np.random.default_rng(5)
    cplx = field == 'complex'
    X = odl.uniform_discr(0, 2, 5, dtype=complex if cplx else float)
    F = odl.ComplexNumbers() if cplx else odl.RealNumbers()

    def rnd(sp):
        if isinstance(sp, odl.set.sets.Field):
            v = rng.standard_normal() + (1j * rng.standard_normal() if isinstance(sp, odl.ComplexNumbers) else 0)
            return sp.element(v)
        a = rng.standard_normal(sp.shape)
        if sp.is_complex:
            a = a + 1j * rng.standard_normal(sp.shape)
        return sp.element(a)
    try:
        s = complex(0.7, -1.2) if cplx else 0.7
        if cls == 'ScalingOperator':
            A = D.ScalingOperator(X, s)
        elif cls == 'IdentityOperator':
            A = D.IdentityOperator(X)
        elif cls == 'MultiplyOperator':
            A = {'vec': lambda: D.MultiplyOperator(rnd(X)), 'scalar': lambda: D.MultiplyOperator(s, domain=X, range=X),
                 'field_dom': lambda: D.MultiplyOperator(rnd(X), domain=F)}[variant]()
        elif cls == 'InnerProductOperator':
            A = D.InnerProductOperator(rnd(X))
        elif cls == 'ZeroOperator':
            A = D.ZeroOperator(X) if variant == 'same' else D.ZeroOperator(X, range=odl.uniform_discr(0, 1, 3, dtype=X.dtype))
        elif cls in ('RealPart', 'ImagPart'):
            A = getattr(D, cls)(X)
        elif cls == 'ComplexEmbedding':
            A = D.ComplexEmbedding(X, scalar=complex(0.7, -1.2))
        else:
            return {'reproduced': False, 'detail': 'no native concretisation for class %s' % cls}
        adj = A.adjoint
        problems = []
        if adj.domain != A.range:
            problems.append('adjoint.domain %r != range %r' % (adj.domain, A.range))
        if adj.range != A.domain:
            problems.append('adjoint.range %r != domain %r' % (adj.range, A.domain))
        x, y = rnd(A.domain), rnd(A.range)

        def ip(sp, a, b):
            if isinstance(sp, odl.set.sets.Field):
                return complex(a) * np.conj(complex(b))
            return sp.inner(a, b)
        try:
            l, r = ip(A.range, A(x), y), ip(A.domain, x, adj(rnd(adj.domain) * 0 + y if False else y))
            mixed = getattr(A.domain, 'is_real', not cplx) != getattr(A.range, 'is_real', not cplx)
            if mixed:
                l, r = complex(l).real, complex(r).real
            if abs(complex(l) - complex(r)) > 1e-9 * (1 + abs(complex(l))):
                problems.append('<Ax,y> = %r but <x,A*y> = %r' % (l, r))
        except Exception as e:
            problems.append('evaluating the identity raised %s: %s' % (type(e).__name__, e))
        try:
            aa = adj.adjoint
            d = aa(x) - A(x)
            if abs(complex(d if isinstance(A.range, odl.set.sets.Field) else d.norm())) > 1e-9:
                problems.append('adjoint.adjoint does not act like the operator')
        except Exception as e:
            problems.append('adjoint.adjoint raised %s: %s' % (type(e).__name__, e))
    except Exception as e:
        return {'reproduced': True, 'detail': 'native %s.adjoint raised %s: %s' % (cls, type(e).__name__, e)}
    return {'reproduced': bool(problems), 'detail': '; '.join(problems) or 'adjoint identity holds natively',
            'input': {'class': cls, 'variant': variant, 'field': field, 'space': repr(X)}}
