"""Native replay of derivative-rule obligations (C06 expr/*): concrete operators with known derivatives,
the real expression class and its derivative(x0)(d) compared with central differences."""
import os
import sys


def replay_tmp_reuse(ob):
    """compositions built with the optional temporary around an operand whose derivative keeps its base point by reference: a derivative must stay valid
    after a second derivative / an in-place evaluation of the composition reused the temporary"""
    root = os.environ.get('PYVC_REPO', '/repo')
    if root not in sys.path:
        sys.path.insert(0, root)
    import odl
    import numpy as np
    from odl.operator import operator as O
    rng = np.random.default_rng(9)
    C = odl.cn(3)
    M = odl.MatrixOperator(rng.standard_normal((3, 3)) + 1j * rng.standard_normal((3, 3)), domain=C, range=C)
    for left in (odl.ComplexModulusSquared(C), odl.ComplexModulus(C)):
        comp = O.OperatorComp(left, M, tmp=C.element())

        def rnd():
            return C.element(rng.standard_normal(3) + 1j * rng.standard_normal(3))
        x1, x2, d = rnd(), rnd(), rnd()
        D1 = comp.derivative(x1)
        comp.derivative(x2)                      # reuses the temporary
        comp(x2, out=comp.range.element())       # and so does an in-place evaluation
        t = 1e-6
        fd = (comp(x1 + t * d) - comp(x1 - t * d)) / (2 * t)
        got = D1(d)
        err = (got - fd).norm() / max(1.0, fd.norm())
        if err > 1e-5:
            return {'reproduced': True, 'detail': 'OperatorComp(%s, M, tmp=...): derivative(x1)(d) after a second derivative(x2) and an in-place call differs from central differences at x1, relative error %.3g' % (type(left).__name__, err)}
    return {'reproduced': False, 'detail': 'derivatives stay valid when the temporary is reused'}


def replay(ob):
    if 'temporary the expression keeps' in ob.get('name', ''):
        try:
            return replay_tmp_reuse(ob)
        except Exception as e:
            return {'reproduced': False, 'detail': 'replay harness error: %r' % (e,)}
    info = ob.get('info') or {}
    cls = info.get('class')
    root = os.environ.get('PYVC_REPO', '/repo')
    if root not in sys.path:
        sys.path.insert(0, root)
    import odl
    import numpy as np
    from odl.operator import operator as O
    if ob.get('unit', '').startswith('pointwise-norm/'):
        cfg = ob.get('config') or {}
        p, k = float(cfg.get('exponent', 2)), int(cfg.get('components', 2))
        base = odl.uniform_discr(0, 1, 4)
        for w in (np.arange(1, k + 1) * 1.5, 2.0, None):
            pn = odl.PointwiseNorm(base ** k, exponent=p, weighting=w)
            rng = np.random.default_rng(11)
            F = pn.domain.element([rng.uniform(0.5, 2.0, 4) * (-1) ** j for j in range(k)])
            F0 = F.copy()
            d = pn.domain.element([rng.standard_normal(4) for j in range(k)])
            got = pn.derivative(F)(d).asarray()
            t = 1e-6
            fd = ((pn(F + t * d) - pn(F - t * d)) / (2 * t)).asarray()
            if not np.allclose(got, fd, rtol=1e-5, atol=1e-7):
                return {'reproduced': True, 'detail': 'PointwiseNorm(rn^%d, exponent=%s, weighting=%r).derivative(F)(d) = %r, central differences give %r' % (k, p, w, got, fd),
                        'input': {'exponent': p, 'weighting': repr(w)}}
            if (F - F0).norm() != 0:
                return {'reproduced': True, 'detail': 'derivative(F) modified F'}
        return {'reproduced': False, 'detail': 'derivative matches central differences for array, constant and default weights'}
    if cls is None or not hasattr(O, cls):
        return {'reproduced': False, 'detail': 'no native concretisation for this obligation kind'}
    rng = np.random.default_rng(7)
    X, Y, Z = odl.rn(3), odl.rn(2), odl.rn(4)
    F = odl.RealNumbers()

    class NpOp(odl.Operator):
        def __init__(self, dom, ran, linear):
            super(NpOp, self).__init__(dom, ran, linear=linear)
            n = dom.size
            m = 1 if isinstance(ran, odl.set.sets.Field) else ran.size
            self.M = rng.standard_normal((m, n))
            self.lin = linear

        def _call(self, x):
            a = np.asarray(x)
            r = self.M.dot(a if self.lin else np.sin(a) + a ** 2)
            return float(r[0]) if isinstance(self.range, odl.set.sets.Field) else r

        def derivative(self, x):
            if self.lin:
                return self
            a = np.asarray(x)
            J = self.M * (np.cos(a) + 2 * a)[None, :]
            op = NpOp(self.domain, self.range, True)
            op.M = J
            return op
    la, lb, ranF = bool(info.get('la')), bool(info.get('lb')), bool(info.get('ranF'))
    try:
        if cls in ('OperatorSum', 'OperatorPointwiseProduct'):
            R = F if ranF else Y
            args = [NpOp(X, R, la), NpOp(X, R, lb)]
            if cls == 'OperatorSum' and not ranF:
                args += [Y.element(), X.element()]
        elif cls == 'OperatorComp':
            args = [NpOp(Y, F if ranF else Z, la), NpOp(X, Y, lb)]
        elif cls == 'OperatorVectorSum':
            args = [NpOp(X, Y, la), Y.element(rng.standard_normal(2))]
        elif cls in ('OperatorLeftScalarMult', 'OperatorRightScalarMult'):
            args = [NpOp(X, F if ranF else Y, la), 1.7]
        elif cls == 'FunctionalLeftVectorMult':
            args = [NpOp(X, F, la), Y.element(rng.standard_normal(2))]
        elif cls == 'OperatorLeftVectorMult':
            args = [NpOp(X, Y, la), Y.element(rng.standard_normal(2))]
        else:
            args = [NpOp(X, F if ranF else Y, la), X.element(rng.standard_normal(3))]
        op = getattr(O, cls)(*args)
        x0 = X.element(rng.standard_normal(3))
        d = X.element(rng.standard_normal(3))
        D = op.derivative(x0)
        got = np.atleast_1d(np.asarray(D(d)))
        errs = []
        for h in (1e-3, 1e-4):
            fd = (np.atleast_1d(np.asarray(op(x0 + h * d))) - np.atleast_1d(np.asarray(op(x0 - h * d)))) / (2 * h)
            errs.append(float(np.max(np.abs(fd - got))))
    except Exception as e:
        return {'reproduced': 'no_raise' in ob.get('name', ''), 'detail': 'native call raised %s: %s' % (type(e).__name__, e),
                'input': {'class': cls, 'la': la, 'lb': lb, 'ranF': ranF}}
    bad = errs[-1] > 1e-5
    return {'reproduced': bool(bad), 'detail': 'central-difference errors %r' % (errs,), 'input': {'class': cls, 'la': la, 'lb': lb, 'ranF': ranF}}
