"""Native replay of C01 counter-models: concretise the model into real ODL objects, call the real
function from the tree under check and evaluate the contract's postcondition at every index."""
import os
import sys


def _import_odl():
    root = os.environ.get('PYVC_REPO', '/repo')
    if root not in sys.path:
        sys.path.insert(0, root)
    import odl
    return odl


def _layout_array(np, size, dtype, cflag, fflag, rng):
    """array of `size` entries with the requested contiguity flags"""
    if cflag and fflag:
        return rng.integers(-5, 6, size=size).astype(dtype), (size,)
    # needs >= 2 dims with two extents > 1
    k = 2
    while size % k and k < 50:
        k += 1
    if size % k or size // k < 2:
        return None, None
    shape = (size // k, k)
    if cflag:
        return rng.integers(-5, 6, size=shape).astype(dtype), shape
    if fflag:
        return np.asfortranarray(rng.integers(-5, 6, size=shape).astype(dtype)), shape
    big = rng.integers(-5, 6, size=(shape[0], 2 * shape[1])).astype(dtype)
    return big[:, ::2], shape


def replay_dunder(ob):
    """element dunders on real spaces (rn, cn, uniform_discr, product space): value against plain NumPy arithmetic, operands untouched, no aliasing of the result"""
    import operator
    odl = _import_odl()
    import numpy as np
    info = ob.get('info') or {}
    dunder, other, field = info.get('dunder'), info.get('other'), info.get('field', 'real')
    name = dunder.strip('_')
    inplace = name.startswith('i') and name not in ('invert',)
    base = name[1:] if (inplace or name.startswith('r')) and hasattr(operator, name[1:]) and not hasattr(operator, name) or name in ('radd', 'rsub', 'rmul', 'rtruediv', 'iadd', 'isub', 'imul', 'itruediv') else name
    refl = name.startswith('r') and name != base
    op = getattr(operator, base, None)
    if op is None or other not in ('self', 'elem', 'scalar', 'arraylike'):
        return {'reproduced': False, 'detail': 'no native concretisation for this obligation kind'}
    rng = np.random.default_rng(2)
    spaces = [odl.rn(5), odl.uniform_discr(0, 1, 5)] if field == 'real' else [odl.cn(5)]
    spaces.append(spaces[0] ** 2)
    for sp in spaces:
        def rand():
            e = sp.element() if False else None
            if isinstance(sp, odl.ProductSpace):
                return sp.element([rng.uniform(0.5, 2.0, 5) for _ in range(len(sp))])
            a = rng.uniform(0.5, 2.0, 5)
            return sp.element(a + 1j * rng.uniform(0.5, 2.0, 5) if field == 'complex' else a)
        x, y = rand(), rand()
        xa = np.asarray(x).copy()
        if other == 'self':
            o, oa = x, xa
        elif other == 'elem':
            o, oa = y, np.asarray(y).copy()
        elif other == 'scalar':
            o = oa = 1.75
        else:
            o = np.asarray(y).copy()
            oa = o.copy()
        keep = o.copy() if other == 'arraylike' else None
        try:
            ret = getattr(x, dunder)(o)
        except Exception as e:
            return {'reproduced': 'no_raise' in ob.get('name', ''), 'detail': '%s raised %s: %s' % (dunder, type(e).__name__, e)}
        if ret is NotImplemented:
            continue
        want = op(oa, xa) if refl else op(xa, oa)
        if not np.allclose(np.asarray(ret), want):
            return {'reproduced': True, 'detail': '%r.%s(%s): %r, expected %r' % (sp, dunder, other, np.asarray(ret), want)}
        if other == 'arraylike':
            if not np.array_equal(o, keep):
                return {'reproduced': True, 'detail': 'x.%s(ndarray) on %r modified the caller\'s array: %r, was %r' % (dunder, sp, o, keep)}
            if np.shares_memory(np.asarray(ret), o):
                return {'reproduced': True, 'detail': 'the result of x.%s(ndarray) on %r shares memory with the caller\'s array' % (dunder, sp)}
        if not inplace and other != 'self' and not np.array_equal(np.asarray(x), xa):
            return {'reproduced': True, 'detail': 'x.%s(%s) modified x' % (dunder, other)}
    return {'reproduced': False, 'detail': 'dunder agrees with NumPy arithmetic and leaves its operands alone on %d spaces' % len(spaces)}


def replay_pspace(ob):
    """product spaces built through the real constructors (power, mixed, nested, complex, discretized factors): kernels, zero / one and the
    dunders (element, broadcast factor element, scalar; all 12 forms) against per-part NumPy arithmetic; operands untouched"""
    import operator
    odl = _import_odl()
    import numpy as np
    rng = np.random.default_rng(5)
    r2, r3, c2 = odl.rn(2), odl.rn(3), odl.cn(2)
    d3 = odl.uniform_discr(0, 1, 3)
    spaces = [r3 ** 2, r3 ** 3, odl.ProductSpace(r2, r3), (r2 ** 2) ** 2, odl.ProductSpace(r2 ** 2, r3), c2 ** 2, d3 ** 2, odl.ProductSpace(d3, r2)]

    def rand(sp):
        if isinstance(sp, odl.ProductSpace):
            return sp.element([rand(s) for s in sp.spaces])
        a = rng.uniform(0.5, 2.0, sp.shape)
        if sp.is_complex:
            a = a + 1j * rng.uniform(0.5, 2.0, sp.shape)
        return sp.element(a)

    def flat(x):
        if isinstance(x.space, odl.ProductSpace):
            return [v for p in x.parts for v in flat(p)]
        return [np.asarray(x).copy()]

    def same(xs, ys):
        return len(xs) == len(ys) and all(np.allclose(a, b, rtol=1e-10, atol=1e-12) for a, b in zip(xs, ys))
    ops = {'add': operator.add, 'sub': operator.sub, 'mul': operator.mul, 'truediv': operator.truediv}
    for sp in spaces:
        # kernels under the five identity patterns
        for pat in [('x', 'y', 'o'), ('x', 'x', 'o'), ('o', 'y', 'o'), ('x', 'o', 'o'), ('o', 'o', 'o')]:
            for meth in ('_lincomb', '_multiply', '_divide'):
                els = {l: rand(sp) for l in set(pat)}
                old = {l: flat(e) for l, e in els.items()}
                x1, x2, out = (els[l] for l in pat)
                a, b = 1.5, -0.75
                if meth == '_lincomb':
                    sp._lincomb(a, x1, b, x2, out)
                    want = [a * u + b * v for u, v in zip(old[pat[0]], old[pat[1]])]
                elif meth == '_multiply':
                    sp._multiply(x1, x2, out)
                    want = [u * v for u, v in zip(old[pat[0]], old[pat[1]])]
                else:
                    sp._divide(x1, x2, out)
                    want = [u / v for u, v in zip(old[pat[0]], old[pat[1]])]
                if not same(flat(out), want):
                    return {'reproduced': True, 'detail': '%r.%s with operands %s: %r, expected %r' % (sp, meth, pat, flat(out), want)}
                for l in els:
                    if els[l] is not out and not same(flat(els[l]), old[l]):
                        return {'reproduced': True, 'detail': '%r.%s with operands %s modified operand %s' % (sp, meth, pat, l)}
        for meth, val in (('zero', 0.0), ('one', 1.0)):
            z = getattr(sp, meth)()
            if z not in sp or not all(np.all(a == val) for a in flat(z)):
                return {'reproduced': True, 'detail': '%r.%s() == %r' % (sp, meth, z)}
        # dunders
        for base, op in ops.items():
            for form in ('', 'r', 'i'):
                dunder = '__%s%s__' % (form, base)
                others = [('pelem', lambda x: rand(sp)), ('self', lambda x: x), ('scalar', lambda x: 1.75)]
                if sp.is_power_space:
                    others.append(('leaf', lambda x: rand(sp[0])))
                for oname, mk in others:
                    x = rand(sp)
                    o = mk(x)
                    xo = flat(x)
                    if oname == 'scalar':
                        oo = [o] * len(xo)
                    elif oname == 'leaf':
                        oo = flat(o) * len(sp)
                    else:
                        oo = flat(o)
                    keep = None if oname in ('scalar', 'self') else flat(o)
                    try:
                        ret = getattr(x, dunder)(o)
                    except Exception as e:
                        return {'reproduced': True, 'detail': '%r: x.%s(%s) raised %s: %s' % (sp, dunder, oname, type(e).__name__, e)}
                    if ret is NotImplemented:
                        return {'reproduced': True, 'detail': '%r: x.%s(%s) is NotImplemented' % (sp, dunder, oname)}
                    want = [op(v, u) if form == 'r' else op(u, v) for u, v in zip(xo, oo)]
                    if ret not in sp or not same(flat(ret), want):
                        return {'reproduced': True, 'detail': '%r: x.%s(%s) == %r, expected parts %r' % (sp, dunder, oname, ret, want)}
                    if form == 'i' and not same(flat(x), want):
                        return {'reproduced': True, 'detail': '%r: x.%s(%s) did not update x in place' % (sp, dunder, oname)}
                    if form != 'i' and oname != 'self' and not same(flat(x), xo):
                        return {'reproduced': True, 'detail': '%r: x.%s(%s) modified x' % (sp, dunder, oname)}
                    if keep is not None and not same(flat(o), keep):
                        return {'reproduced': True, 'detail': '%r: x.%s(%s) modified the other operand' % (sp, dunder, oname)}
    return {'reproduced': False, 'detail': 'product-space kernels, zero / one and all dunders agree with per-part NumPy arithmetic on %d product spaces' % len(spaces)}


def stale_nan_cases():
    """(case, failure-or-None): the previous contents of the output - here NaN, as an uninitialised element may hold - never influence the result, in every size regime:
    set_zero(), lincomb into an output that is not an operand, assign, and in-place calls of operators that zero their output first"""
    odl = _import_odl()
    import numpy as np
    for n in (3, 50, 99, 100, 150):
        for dt in ('float64', 'float32', 'complex128'):
            sp = odl.tensor_space(n, dtype=dt)
            rng = np.random.default_rng(n)
            x, y = sp.element(rng.uniform(0.5, 2.0, n)), sp.element(rng.uniform(0.5, 2.0, n))

            def stale():
                return sp.element(np.full(n, np.nan))
            checks = []
            o = stale(); o.set_zero(); checks.append(('set_zero()', o, np.zeros(n)))
            for a, b in ((0, 0), (2.0, 0), (0, 3.0), (2.0, 3.0)):
                o = stale(); sp.lincomb(a, x, b, y, out=o); checks.append(('lincomb(%r, x, %r, y, out=<NaN>)' % (a, b), o, a * x.asarray() + b * y.asarray()))
            o = stale(); o.assign(x); checks.append(('assign(x)', o, x.asarray()))
            o = stale(); sp.multiply(x, y, out=o); checks.append(('multiply(x, y, out=<NaN>)', o, x.asarray() * y.asarray()))
            for label, got, want in checks:
                case = {'size': n, 'dtype': dt, 'operation': label}
                bad = None if np.allclose(got.asarray(), want, equal_nan=False) else '%s on %r: %r, expected %r' % (label, sp, got.asarray()[:4], np.asarray(want)[:4])
                yield case, bad
    for n in (5, 150):
        X = odl.uniform_discr(0, 1, n)
        f = X.element(np.arange(n, dtype=float) ** 2)
        ops = {'Laplacian': odl.Laplacian(X), 'ZeroOperator': odl.ZeroOperator(X), 'ComponentProjectionAdjoint': odl.ComponentProjection(X ** 2, 0).adjoint}
        for name, op in ops.items():
            case = {'size': n, 'operator': name}
            out = op.range.element()
            for part in (out.parts if hasattr(out, 'parts') else [out]):
                part[:] = np.nan
            got, want = op(f, out=out), op(f)
            bad = None if (got - want).norm() < 1e-9 * (1 + want.norm()) else '%s on %r: op(x, out=<NaN>) differs from op(x) (NaN survives: %r)' % (name, X, bool(np.isnan((got - want).norm())))
            yield case, bad


def replay(ob):
    rp = ob.get('replay') or {}
    if ob.get('unit', '').startswith('nan-native/'):
        want = ob.get('model') or rp.get('case')
        for case, bad in stale_nan_cases():
            if case == want:
                return {'reproduced': bool(bad), 'detail': bad or 'holds natively', 'input': case}
        return {'reproduced': False, 'detail': 'case not found'}
    if ob.get('unit', '').startswith('elem/__pow__') or ob.get('unit', '').startswith('elem/__ipow__'):
        try:
            odl = _import_odl()
            import numpy as np
            rng = np.random.default_rng(9)
            for sp in (odl.rn(5), odl.cn(3), odl.uniform_discr(0, 1, 4), odl.rn(3) ** 2):
                for p in list(range(-4, 13)) + [0.5, 2.5]:
                    if isinstance(sp, odl.ProductSpace):
                        a = rng.uniform(0.5, 2.0, (2, 3))
                    else:
                        a = rng.uniform(0.5, 2.0, sp.shape) + (1j * rng.uniform(0.5, 2.0, sp.shape) if sp.is_complex else 0)
                    if not float(p).is_integer() and (isinstance(sp, odl.ProductSpace) or sp.is_complex):
                        continue
                    x = sp.element(a)
                    y = x ** p
                    z = x.copy()
                    z **= p
                    want = np.asarray(a) ** p
                    if not np.allclose(np.asarray(y), want) or not np.allclose(np.asarray(z), want) or not np.allclose(np.asarray(x), a):
                        return {'reproduced': True, 'detail': '%r: x ** %r = %r, x **= %r gives %r, entry-wise power %r' % (sp, p, np.asarray(y), p, np.asarray(z), want)}
            return {'reproduced': False, 'detail': 'powers -4..12 agree with NumPy on 4 spaces'}
        except Exception as e:
            return {'reproduced': False, 'detail': 'replay harness error: %r' % (e,)}
    if ob.get('unit', '').startswith('pspace/'):
        try:
            return replay_pspace(ob)
        except Exception as e:
            return {'reproduced': False, 'detail': 'replay harness error: %r' % (e,)}
    if ob.get('unit', '').startswith('elem/__') and (ob.get('info') or {}).get('dunder'):
        try:
            return replay_dunder(ob)
        except Exception as e:
            return {'reproduced': False, 'detail': 'replay harness error: %r' % (e,)}
    if rp.get('kind') not in ('lincomb_impl', 'tensor_binary'):
        return {'reproduced': False, 'detail': 'no native concretisation for this obligation kind'}
    odl = _import_odl()
    import numpy as np
    m = ob.get('model') or {}
    dt = rp['dtype']
    pat = rp['alias']
    size = int(m.get('X.size', 120))
    if size > 400000:
        return {'reproduced': False, 'detail': 'no native concretisation: size %d too large to allocate in the replay' % size}
    rng = np.random.default_rng(0)
    import itertools
    labels = sorted(set(pat))
    unknown = [l + sfx for l in labels for sfx in ('.c_contig', '.f_contig') if l + sfx not in m]
    cands = []
    for n in [size, size + (size % 2), size + 1]:
        for combo in itertools.product([True, False], repeat=len(unknown)):
            cands.append((n, dict(zip(unknown, combo))))
    last = None
    for n, extra in cands:
        if n <= 0:
            continue
        mm = dict(m)
        mm.update(extra)
        flags = {l: (bool(mm[l + '.c_contig']), bool(mm[l + '.f_contig'])) for l in labels}
        one_d = all(c and f for c, f in flags.values())
        if not one_d and any(c and f for c, f in flags.values()):
            continue        # both flags on a >= 2-d array needs a degenerate shape: not concretised
        arrs = {}
        shape = None
        ok = True
        for l in labels:
            c, f = flags[l]
            a, shp = _layout_array(np, n, dt, c, f, rng)
            if a is None or (shape is not None and shp != shape):
                ok = False
                break
            shape = shp
            arrs[l] = a
        if not ok:
            continue
        space = odl.tensor_space(shape, dtype=dt)
        els = {}
        for l in arrs:
            v = m.get('v.' + l, m.get('v.' + l + '.re'))
            if v is not None:
                arrs[l].flat[0] = complex(v, m.get('v.' + l + '.im', 0)) if 'complex' in dt else v
            els[l] = space.element(arrs[l])
            if not np.shares_memory(els[l].data, arrs[l]):
                els[l] = space.element(arrs[l].copy())
        if 'complex' in dt:
            a = complex(m.get('a.re', 1.0), m.get('a.im', 0.0))
            b = complex(m.get('b.re', 1.0), m.get('b.im', 0.0))
        elif 'int' in dt:
            a, b = int(m.get('a', 1)), int(m.get('b', 1))
        else:
            a, b = float(m.get('a', 1.0)), float(m.get('b', 1.0))
        x1, x2, out = (els[l] for l in pat)
        old = {l: els[l].asarray().copy() for l in els}
        meth = rp.get('method', '_lincomb_impl')
        try:
            if rp['kind'] == 'lincomb_impl':
                from odl.space.npy_tensors import _lincomb_impl
                _lincomb_impl(a, x1, b, x2, out)
                expect = a * old[pat[0]] + b * old[pat[1]]
            elif meth == '_lincomb':
                space._lincomb(a, x1, b, x2, out)
                expect = a * old[pat[0]] + b * old[pat[1]]
            elif meth == '_multiply':
                space._multiply(x1, x2, out)
                expect = old[pat[0]] * old[pat[1]]
            else:
                with np.errstate(all='ignore'):
                    space._divide(x1, x2, out)
                    expect = old[pat[0]] / old[pat[1]]
        except Exception as e:
            return {'reproduced': True, 'detail': 'native call raised %s: %s' % (type(e).__name__, e),
                    'input': {'shape': list(shape), 'dtype': dt, 'a': str(a), 'b': str(b), 'alias': pat}}
        got = out.asarray()
        with np.errstate(all='ignore'):
            bad = not np.allclose(got, expect.astype(got.dtype), rtol=1e-6, atol=1e-9, equal_nan=True)
        frame_bad = [l for l in els if els[l] is not out and not np.array_equal(els[l].asarray(), old[l])]
        last = {'shape': list(shape), 'dtype': dt, 'a': str(a), 'b': str(b), 'alias': pat}
        if bad or frame_bad:
            return {'reproduced': True, 'detail': 'value mismatch' if bad else 'operand %s modified' % frame_bad, 'input': last}
    return {'reproduced': False, 'detail': 'contract holds natively on the concretised input', 'input': last}
