"""Native search for a failing input of a C11 obligation, and the bounded run-time monitor of the thorough tier.

The deductive obligations of C11 quantify over abstract operators / functionals, so a refuted obligation has no
concrete input of its own.  `replay` runs the *real* solvers (CPython, NumPy) on a stated, bounded family of small
random problems (matrix operators, library functionals incl. L1 / L2 / squared L2 / box and non-negativity
indicators / Huber / KL / group-L1, positive step sizes, random start points) and reports the first instance on
which the claim of the obligation's unit fails: optimised vs reference iterates, or n-then-m vs n+m iterations."""
import os
import sys

RTOL, ATOL = 1e-9, 1e-11


def _odl():
    root = os.environ.get('PYVC_REPO', '/repo')
    if root not in sys.path:
        sys.path.insert(0, root)
    import warnings
    warnings.filterwarnings('ignore')
    import odl
    import numpy as np
    return odl, np


def functionals(odl, np, space, rng, need='prox'):
    """pool of library functionals on `space` (rn(k)); each entry (name, functional)"""
    F = odl.solvers
    v = space.element(rng.standard_normal(space.shape))
    pos = space.element(rng.uniform(0.5, 2.0, space.shape))
    pool = [('L1', F.L1Norm(space)), ('L2', F.L2Norm(space)), ('L2sq', F.L2NormSquared(space)),
            ('L1-shift', F.L1Norm(space).translated(v)), ('2.5*L2sq', 2.5 * F.L2NormSquared(space)),
            ('box', F.IndicatorBox(space, -0.7, 0.9)), ('nonneg', F.IndicatorNonnegativity(space)),
            ('huber', F.Huber(space, 0.3)), ('KL', F.KullbackLeibler(space, prior=pos)), ('zero', F.ZeroFunctional(space)),
            ('L2sq-shift', F.L2NormSquared(space).translated(v)), ('L1(0.5 .)', F.L1Norm(space) * 0.5)]
    if need == 'grad':
        pool = [('L2sq', F.L2NormSquared(space)), ('2.5*L2sq', 2.5 * F.L2NormSquared(space)), ('L2sq-shift', F.L2NormSquared(space).translated(v)),
                ('huber', F.Huber(space, 0.3)), ('quad', F.QuadraticForm(vector=v, constant=0.3))]
    return pool


def close(np, a, b):
    a, b = np.asarray(a), np.asarray(b)
    if not (np.all(np.isfinite(a)) and np.all(np.isfinite(b))):
        return bool(np.array_equal(np.isfinite(a), np.isfinite(b)) and np.allclose(a[np.isfinite(a)], b[np.isfinite(b)], rtol=RTOL, atol=ATOL))
    return bool(np.allclose(a, b, rtol=RTOL, atol=ATOL))


class Rec(object):
    def __init__(self):
        self.its = []

    def __call__(self, x):
        self.its.append(x.copy())


def instances(kind, cfg, n_inst, seed):
    """generator of (description, check) where check() -> None | failure text"""
    odl, np = _odl()
    rng = np.random.default_rng(seed)
    for t in range(n_inst):
        n, k = int(rng.integers(2, 5)), int(rng.integers(2, 5))
        X, Y = odl.rn(n), odl.rn(k)
        M = rng.standard_normal((k, n))
        L = odl.MatrixOperator(M, domain=X, range=Y)
        nrm = np.linalg.norm(M, 2)
        x0 = X.element(rng.standard_normal(n))
        fX = functionals(odl, np, X, rng)
        fY = functionals(odl, np, Y, rng)
        f_n, f = fX[int(rng.integers(len(fX)))]
        g_n, g = fY[int(rng.integers(len(fY)))]
        desc = {'n': n, 'k': k, 'f': f_n, 'g': g_n, 'seed': seed, 'instance': t}
        S = odl.solvers
        if kind == 'admm_linearized':
            sigma = float(rng.uniform(0.5, 2.0))
            tau = float(0.9 * sigma / nrm ** 2)
            from odl.solvers.nonsmooth.admm import admm_linearized_simple

            def check(f=f, g=g, L=L, x0=x0, tau=tau, sigma=sigma):
                a, b = Rec(), Rec()
                xa, xb = x0.copy(), x0.copy()
                S.admm_linearized(xa, f, g, L, tau, sigma, 4, callback=a)
                admm_linearized_simple(xb, f, g, L, tau, sigma, 4, callback=b)
                if len(a.its) != 4 or len(b.its) != 4:
                    return 'callback counts %d / %d for 4 iterations' % (len(a.its), len(b.its))
                for i, (u, v) in enumerate(zip(a.its, b.its)):
                    if not close(np, u, v):
                        return 'iterate %d differs: optimised %r, reference %r' % (i + 1, u, v)
                if not close(np, xa, a.its[-1]):
                    return 'final x is not the last callback iterate'
            yield dict(desc, tau=tau, sigma=sigma), check
        elif kind == 'doubleprox_dc':
            from odl.solvers.nonsmooth.difference_convex import doubleprox_dc_simple
            pG = functionals(odl, np, X, rng, 'grad')
            phi_n, phi = pG[int(rng.integers(len(pG)))]
            gamma, mu = float(rng.uniform(0.05, 0.5)), float(rng.uniform(0.05, 0.5))
            y0 = Y.element(rng.standard_normal(k))

            def check(f=f, g=g, phi=phi, L=L, x0=x0, y0=y0, gamma=gamma, mu=mu):
                for niter in (1, 2, 3):
                    xa, ya, xb, yb = x0.copy(), y0.copy(), x0.copy(), y0.copy()
                    rec = Rec()
                    S.doubleprox_dc(xa, ya, f, phi, g, L, niter, gamma, mu, callback=rec)
                    doubleprox_dc_simple(xb, yb, f, phi, g, L, niter, gamma, mu)
                    if len(rec.its) != niter:
                        return 'callback called %d times in %d iterations' % (len(rec.its), niter)
                    if not close(np, xa, xb) or not close(np, ya, yb):
                        return 'after %d iterations: optimised x=%r y=%r, reference x=%r y=%r' % (niter, xa, ya, xb, yb)
            yield dict(desc, phi=phi_n, gamma=gamma, mu=mu), check
        elif kind == 'adupdates':
            from odl.solvers.nonsmooth.alternating_dual_updates import adupdates_simple
            m = int(cfg.get('m', 2))
            shared = bool(cfg.get('shared_range'))
            Ys = [Y] * m if shared else [odl.rn(int(rng.integers(2, 5))) for _ in range(m)]
            Ls = [odl.MatrixOperator(rng.standard_normal((Yi.size, n)), domain=X, range=Yi) for Yi in Ys]
            gs = []
            for Yi in Ys:
                p = functionals(odl, np, Yi, rng)
                gs.append(p[int(rng.integers(len(p)))])
            stepsize = float(rng.uniform(0.5, 2.0))
            inner = [float(0.9 / np.linalg.norm(Li.matrix, 2) ** 2) for Li in Ls]
            if cfg.get('inner') == 'elem':
                # pointwise inner step sizes given as range elements (caller-owned arrays)
                inner = [Yi.element(s_ * rng.uniform(0.5, 1.0, Yi.size)) for s_, Yi in zip(inner, Ys)]
            rnd = bool(cfg.get('random'))

            def check(gs=gs, Ls=Ls, x0=x0, stepsize=stepsize, inner=inner, rnd=rnd):
                for niter in (1, 2, 3):
                    xa, xb = x0.copy(), x0.copy()
                    rec = Rec()
                    np.random.seed(7)
                    inner0 = [i_.copy() if hasattr(i_, 'copy') else i_ for i_ in inner]
                    S.adupdates(xa, [g_ for _, g_ in gs], Ls, stepsize, inner, niter, random=rnd, callback=rec,
                                callback_loop=cfg.get('callback_loop', 'outer'))
                    for i_, j_ in zip(inner, inner0):
                        if hasattr(i_, 'copy') and (i_ - j_).norm() != 0:
                            return 'adupdates modified the caller\'s inner_stepsizes: %r, was %r' % (i_, j_)
                    np.random.seed(7)
                    adupdates_simple(xb, [g_ for _, g_ in gs], Ls, stepsize, inner, niter, random=rnd)
                    exp = niter * (len(Ls) if cfg.get('callback_loop') == 'inner' else 1)
                    if len(rec.its) != exp:
                        return 'callback called %d times, expected %d' % (len(rec.its), exp)
                    if not close(np, xa, xb):
                        return 'after %d iterations: optimised %r, reference %r' % (niter, xa, xb)
            yield dict(desc, g=[n_ for n_, _ in gs], stepsize=stepsize, random=rnd), check
        else:
            # resumption: n then m == n + m
            def split(run, state0, n1=2, n2=2):
                def check():
                    for (a, b) in ((1, 1), (n1, n2), (1, 3)):
                        s1 = [v.copy() for v in state0]
                        run(s1, a)
                        run(s1, b)
                        s2 = [v.copy() for v in state0]
                        run(s2, a + b)
                        for u, v in zip(s1, s2):
                            if not close(np, u, v):
                                return '%d then %d iterations give %r, %d at once give %r' % (a, b, u, a + b, v)
                    rec = Rec()
                    s3 = [v.copy() for v in state0]
                    run(s3, 3, rec)
                    exp = 3 * int(cfg.get('m', 1) if cfg.get('callback_loop') == 'inner' or kind == 'mlem' else 1)
                    if len(rec.its) != exp and not (kind == 'steepest_descent' and len(rec.its) < exp):      # steepest descent may stop early (tol)
                        return 'callback called %d times in 3 iterations' % len(rec.its)
                    if rec.its and not close(np, rec.its[-1], s3[0]):
                        return 'last callback iterate differs from the final x'
                return check
            if kind == 'landweber':
                rhs = Y.element(rng.standard_normal(k))
                omega = float(0.9 / nrm ** 2)
                proj = (lambda z: z.ufuncs.maximum(0, out=z)) if cfg.get('projection') else None
                yield dict(desc, omega=omega), split(lambda s, it, cb=None: S.landweber(L, s[0], rhs, it, omega=omega, projection=proj, callback=cb), [x0])
            elif kind == 'kaczmarz':
                m = int(cfg.get('m', 2))
                Ys = [Y] * m if cfg.get('shared_range') else [odl.rn(int(rng.integers(2, 5))) for _ in range(m)]
                ops = [odl.MatrixOperator(rng.standard_normal((Yi.size, n)), domain=X, range=Yi) for Yi in Ys]
                rhs = [Yi.element(rng.standard_normal(Yi.size)) for Yi in Ys]
                om = [float(0.9 / np.linalg.norm(o.matrix, 2) ** 2) for o in ops]
                if cfg.get('omega') != 'list':
                    om = min(om)
                proj = (lambda z: z.ufuncs.maximum(0, out=z)) if cfg.get('projection') else None
                yield dict(desc, omega=om), split(lambda s, it, cb=None: S.kaczmarz(ops, s[0], rhs, it, omega=om, projection=proj, callback=cb,
                                                                                   callback_loop=cfg.get('callback_loop', 'outer')), [x0])
            elif kind == 'proximal_gradient':
                pG = functionals(odl, np, X, rng, 'grad')
                g_n, g = pG[int(rng.integers(len(pG)))]
                gamma = float(rng.uniform(0.05, 0.3))
                kw = {'lam': float(rng.uniform(0.3, 1.0))} if cfg.get('lam') == 'scalar' else {}
                yield dict(desc, g=g_n, gamma=gamma, **kw), split(lambda s, it, cb=None: S.proximal_gradient(s[0], f, g, gamma, it, callback=cb, **kw), [x0])
            elif kind == 'steepest_descent':
                pG = functionals(odl, np, X, rng, 'grad')
                g_n, g = pG[int(rng.integers(len(pG)))]
                step = float(rng.uniform(0.05, 0.3))
                proj = (lambda z: z.ufuncs.maximum(0, out=z)) if cfg.get('projection') else None
                yield dict(desc, f=g_n, step=step), split(lambda s, it, cb=None: S.steepest_descent(g, s[0], line_search=step, maxiter=it, tol=1e-30,
                                                                                                   projection=proj, callback=cb), [x0])
            elif kind == 'mlem':
                A = odl.MatrixOperator(rng.uniform(0.1, 1.0, (k, n)), domain=X, range=Y)
                data = Y.element(rng.uniform(0.5, 2.0, k))
                xp = X.element(rng.uniform(0.5, 2.0, n))
                if cfg.get('entry') == 'osmlem':
                    m = int(cfg.get('m', 1))
                    As = [odl.MatrixOperator(rng.uniform(0.1, 1.0, (k, n)), domain=X, range=Y) for _ in range(m)]
                    ds = [Y.element(rng.uniform(0.5, 2.0, k)) for _ in range(m)]
                    kw = {'sensitivities': [X.element(rng.uniform(0.5, 2.0, n)) for _ in range(m)]} if cfg.get('sens') == 'given' else {}
                    yield desc, split(lambda s, it, cb=None: S.osmlem(As, s[0], ds, it, callback=cb, **kw), [xp])
                else:
                    kw = {'sensitivities': [X.element(rng.uniform(0.5, 2.0, n))]} if cfg.get('sens') == 'given' else {}
                    yield desc, split(lambda s, it, cb=None: S.mlem(A, s[0], data, it, callback=cb, **kw), [xp])
            elif kind == 'pdhg':
                sigma = float(rng.uniform(0.3, 1.5))
                tau = float(0.9 / (sigma * nrm ** 2))
                theta = {'theta': float(rng.choice([0.0, 0.5, 1.0, rng.uniform(0, 1)]))} if cfg.get('theta') == 'sym' else {}
                y0 = Y.element(rng.standard_normal(k))
                passed = cfg.get('passed', 'both')
                if passed != 'both':
                    continue        # resumption needs both exposed variables; the other forms are covered by their init obligations

                def run(s, it, cb=None):
                    S.pdhg(s[0], f, g, L, it, tau=tau, sigma=sigma, x_relax=s[1], y=s[2], callback=cb, **theta)
                yield dict(desc, tau=tau, sigma=sigma, **theta), split(run, [x0, x0.copy(), Y.zero()])
            else:
                return


def search(kind, cfg, n_inst=30, seed=11):
    tried = 0
    for desc, check in instances(kind, cfg, n_inst, seed):
        tried += 1
        try:
            bad = check()
        except Exception as e:       # library limitation on this instance (e.g. a proximal not implemented): not evidence
            bad = None
            desc['skipped'] = '%s: %s' % (type(e).__name__, e)
        if bad:
            return {'reproduced': True, 'detail': bad, 'input': desc, 'tried': tried}
    return {'reproduced': False, 'detail': 'no failing input among %d random native instances' % tried, 'tried': tried}


def replay(ob):
    unit = ob['unit']
    parts = unit.split('/')
    if (ob.get('replay') or {}).get('kind') == 'native-case':
        return replay_case(ob['replay']['case'])
    if parts[0] not in ('equiv', 'resume'):
        return {'reproduced': False, 'detail': 'no native concretisation for this obligation kind'}
    cfg = dict(ob.get('config') or {})
    return search(parts[1], cfg, n_inst=40, seed=11)


def replay_case(case):
    """re-run exactly the recorded instance of the bounded monitor"""
    idx, seed = int(case['input']['instance']), int(case['seed'])
    for desc, check in instances(case['kind'], case['cfg'], idx + 1, seed):
        if desc['instance'] == idx:
            try:
                bad = check()
            except Exception as e:
                return {'reproduced': False, 'detail': 'instance raised %s: %s' % (type(e).__name__, e)}
            return {'reproduced': bool(bad), 'detail': bad or 'holds natively', 'input': desc}
    return {'reproduced': False, 'detail': 'instance not regenerated'}
