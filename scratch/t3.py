import sys
sys.path.insert(0, '/verif')
import z3
from pyvc import core, interp as ip, odlmodel as om, vc
from pyvc.core import Lower
from contracts import lib
from contracts.props import C01
I = om.new_interp()
f = I.get_func('odl.set.space:LinearSpaceElement.__ipow__')
p = -3
def path(st):
    asp = lib.AbstractSpace(I, 'X', 'complex')
    st.cuts.update(lib.space_api_cuts(C01.make_abstract_elem(asp)))
    x = asp.element('x')
    old = lib.content(x)
    lib.assume_nonzero(st, 'x', 'complex')
    fr = ip.Frame(st)
    ret = I.call(f, [x, p], {}, fr)
    return ('ok', (x, old, ret))
for st, (s, (x, old, ret)) in ip.explore(path):
    low = Lower(st.pc)
    goal = lib.eq_goal(low, lib.content(ret), C01.vpow(old, p))
    print('side', st.side)
    print('goal', goal.t)
    side2 = vc.strengthen_side(st.pc, st.side)
    print('side2', side2)
    s = core.mk_solver(8000); s.add(*st.pc); s.add(*side2); s.add(z3.Not(goal.t))
    r = s.check(); print(r)
    if r == z3.sat:
        m = s.model(); print(m)
        for c in list(st.pc) + side2 + [z3.Not(goal.t)]:
            print(m.eval(c, model_completion=True))
