import sys, traceback
sys.path.insert(0, '/verif')
from pyvc import core, interp as ip, odlmodel as om
from contracts import flib
from contracts.props import C08
I = om.new_interp()
st = ip.State(); core.reset_symbols()
flib.install(st, 'gram'); fr = ip.Frame(st)
try:
    b = C08.build(I, st, fr, 'right_scalar')
    hc = I._getattr(b['h'], 'convex_conj', fr)
    print(hc)
except Exception as e:
    traceback.print_exc()
