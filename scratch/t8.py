import sys, traceback
sys.path.insert(0, '/verif')
import z3
from pyvc import core, interp as ip, odlmodel as om, harness, vc
from pyvc.core import S
core.reset_symbols()
s = S(z3.Real('s')); x = S(z3.Real('x'))
pc = [(s > 0).t]
q0 = 1.0 / s
q1 = 1.0 / q0
print(q0, q1, core.side_conditions())
goal = (q1 * x == s * x).t
print(vc.strengthen_side(pc, core.side_conditions()))
print(vc.prove(pc, core.side_conditions(), goal, quick=True))
print(vc.poly_identity(pc, vc.strengthen_side(pc, core.side_conditions()), goal))
