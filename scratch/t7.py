import sys, traceback
sys.path.insert(0, '/verif')
from pyvc import core, interp as ip, odlmodel as om, harness
from contracts.props import C08
u = C08.unit_conj('right_scalar')
ctx = harness.Ctx(u)
try:
    u.run(ctx)
except Exception:
    traceback.print_exc()
print(ctx.obls)
