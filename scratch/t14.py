import sys, time
sys.path.insert(0, '/verif')
import z3
from pyvc import core, interp as ip, odlmodel as om, vc
from contracts.props import C15
I = om.new_interp()
def path(st):
    ns, cvecs, values, res = C15.run_interp(I, st, 2, ['linear','linear'])
    return ('ok', (ns, cvecs, values, res))
for st, (_, (ns, cvecs, values, res)) in ip.explore(path):
    got = st.lower(res.buf.content)
    want, cells = C15.blend(st, cvecs, ns, values, ['linear','linear'])
    goal = core.sc_eq(got, want).t
    pc = list(st.pc); side = core.side_conditions()
    side2 = vc.strengthen_side(pc, side)
    print(len(side), len(side2))
    t=time.time(); g1, subs = vc.implied_equalities(pc, goal); g2 = vc.elim_ite(pc, side2, g1); print('elim', time.time()-t, len(str(g2)))
    print(str(g2)[:2500])
    try: print('poly', vc.poly_identity(pc, side2, g2))
    except Exception as e: print('ERR', e)
