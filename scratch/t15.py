import sys
sys.path.insert(0, '/verif')
import z3
from pyvc import core, interp as ip, odlmodel as om, npmodel as npm
from pyvc.core import S, VVar, VLin
from contracts.props import C02
from contracts.props.C01 import tensor_space_cuts
I = om.new_interp()
cls = I.get_class(C02.NPT + 'NumpyTensorSpaceArrayWeighting')
def path(st):
    sb = C02.setup(I, st, 'float64'); fr = ip.Frame(st)
    wbuf = npm.Buf(VVar('w', 'real'), npm.DT('float64'), sb.shape, S(z3.Bool('w.c_contig')), S(z3.Bool('w.f_contig')), name='w')
    st.assume(st.lower(VVar('w', 'real')) > 0)
    wobj = I.call(cls, [npm.PArr(wbuf)], {'exponent': 2.0}, fr)
    sb.space.fields['_NumpyTensorSpace__weighting'] = wobj
    st.cuts.update(tensor_space_cuts(sb))
    x, y = sb.element('x'), sb.element('y')
    r = I.call(I._getattr(wobj, 'dist', fr), [x, y], {}, fr)
    return ('ok', r)
n=0
for st, (_, r) in ip.explore(path):
    n+=1
    if n>3: break
    print([str(p) for p in st.pc][2:])
    for rec in st.reductions.records: print('  rec', rec.kind, rec.low, '|', rec.summand)
