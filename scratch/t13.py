import sys, time
sys.path.insert(0, '/verif')
import z3
from pyvc import core, interp as ip, odlmodel as om, carr, vc, npmodel as npm, harness
from pyvc.core import S, s_and
from contracts.props import C16
I = om.new_interp()
mode='order0'
def path(st):
    C16.setup(st)
    ns = [S(z3.Int('n0')), S(z3.Int('n1'))]; ms = [S(z3.Int('m0')), S(z3.Int('m1'))]; offs = [S(z3.Int('off0')), S(z3.Int('off1'))]
    for v, c in zip(ns+ms+offs, [2,2,3,5,1,2]): st.assume(core.sc_eq(v, c))
    ks = [S(z3.Int('k0')), S(z3.Int('k1'))]
    for v, c in zip(ks, [1,4]): st.assume(core.sc_eq(v, c))
    dk = carr.delta_array(tuple(ms), tuple(ks), npm.DT('float64'))
    oa = carr.fresh_array('sa', tuple(ns), npm.DT('float64'))
    C16.call_resize(I, st, dk, tuple(ns), offs, mode, 0, 'adjoint', out=oa)
    return ('ok', oa)
for st, (_, oa) in ip.explore(path):
    s = core.mk_solver(); s.add(*st.pc)
    for j in [(0,0),(0,1),(1,0),(1,1)]:
        v = oa.at(j)
        s.push(); x = z3.Real('x'); s.add(x == v.t); s.check(); print(j, s.model()[x]); s.pop()
