import sys, time
sys.path.insert(0, '/verif')
import z3
from pyvc import core, interp as ip, odlmodel as om, carr, vc, npmodel as npm
from pyvc.core import S
I = om.new_interp()
f = I.get_func('odl.util.numerics:resize_array')
t0=time.time()
for direction in ['forward', 'adjoint']:
  for pad in ['constant','periodic','symmetric','order0','order1']:
    def path(st):
        st.closure_arrays = True
        from contracts import utilcuts; st.cuts.update(utilcuts.cuts())
        n = S(z3.Int('n')); m = S(z3.Int('m')); off = S(z3.Int('off'))
        st.assume(n >= 2); st.assume(m > n); st.assume(off >= 0); st.assume(off <= m - n)
        if direction == 'forward':
            arr = carr.fresh_array('a', (n,), npm.DT('float64')); newshp = (m,)
        else:
            k0 = S(z3.Int('k0')); st.assume(k0>=0); st.assume(k0<m)
            arr = carr.delta_array((m,), (k0,), npm.DT('float64')); newshp = (n,)
        fr = ip.Frame(st)
        try:
            r = I.call(f, [arr, newshp], {'offset': [off], 'pad_mode': pad, 'pad_const': 0 if direction=='adjoint' else S(z3.Real('c')), 'direction': direction}, fr)
        except ip.PyRaise as e:
            return ('raise', e.exc)
        return ('ok', r)
    np_ = 0; nr = 0
    try:
        for st, (s_, r) in ip.explore(path):
            np_ += 1
            if s_ == 'raise':
                nr += 1
                if nr < 3: print('   RAISE', r.cls.name, r.fields.get('args'), [str(p) for p in st.pc][4:])
        print(direction, pad, 'paths', np_, 'raising', nr)
    except Exception as e:
        import traceback; traceback.print_exc(); print(direction, pad, 'ERR', repr(e)[:300])
print(time.time()-t0)
