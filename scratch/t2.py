import sys
sys.path.insert(0, '/verif')
from pyvc import core, interp as ip, odlmodel as om
from contracts import lib
I = om.new_interp()
f = I.get_func('odl.set.space:LinearSpace.lincomb')
st = ip.State()
asp = lib.AbstractSpace(I, 'X', 'real')
st.cuts.update(lib.abstract_space_cuts(asp))
print(list(st.cuts))
x, o = asp.element('x'), asp.element('o')
fr = ip.Frame(st)
a = om.sym_scalar('a', 'real')
import traceback
try:
    print(I.call(f, [asp.space, a, x], {'out': o}, fr))
except ip.PyRaise as e:
    traceback.print_exc()
