import sys, time
sys.path.insert(0, '/verif')
import z3
from pyvc import core, interp as ip, npmodel as npm, odlmodel as om
from pyvc.core import S, Lower

I = om.new_interp()
f = I.get_func('odl.space.npy_tensors:_lincomb_impl')
print(f)
t0 = time.time()
tot = 0
for pat in [('x', 'y', 'o'), ('x', 'x', 'o'), ('o', 'y', 'o'), ('x', 'o', 'o'), ('o', 'o', 'o')]:
  for dt in ['complex128']:
    def run(st):
        sb = om.TensorSpaceBuilder(I, dt)
        for c in sb.constraints: st.assume(c)
        kind = 'complex' if dt.startswith('complex') else ('int' if dt.startswith('int') else 'real')
        a, b = om.sym_scalar('a', kind), om.sym_scalar('b', kind)
        els = {l: sb.element(l) for l in set(pat)}
        x1, x2, out = (els[l] for l in pat)
        old = {l: els[l].buf.content for l in els}
        fr = ip.Frame(st)
        try:
            I.call(f, [a, x1, b, x2, out], {}, fr)
        except ip.PyRaise as e:
            return ('raise', e.exc)
        return ('ok', (a, b, els, old, out))
    res = ip.explore(run)
    nfail = 0
    for st, (status, r) in res:
        tot += 1
        if status == 'raise':
            nfail += 1
            if nfail < 3: print('   RAISE', pat, dt, r.cls.name, r.fields.get('args'), [str(p) for p in st.pc][:6])
            continue
        a, b, els, old, out = r
        low = Lower(st.pc)
        goal = core.sc_eq(low(out.buf.content), low(core.VLin([(a, old[pat[0]]), (b, old[pat[1]])])))
        from pyvc import vc
        v = vc.prove(st.pc, st.side, goal)
        if v.status != 'proved':
            nfail += 1
            print('   FAIL', pat, dt, v, v.model)
        elif v.backend != 'z3': print('   ', v)
        for l in els:
            if els[l] is not out:
                g = core.sc_eq(low(els[l].buf.content), low(old[l]))
                s = core.mk_solver(); s.add(*st.pc); s.add(*st.side); s.add(z3.Not(g.t))
                if s.check() != z3.unsat: print('   FRAME FAIL', pat, dt, l)
        ev = [e for e in st.events if e[0] not in ('write', 'blas')]
        if ev: print('   events', pat, dt, ev[:3])
    print(pat, dt, 'paths', len(res), 'fail', nfail)
print('total', tot, 'time', time.time() - t0)
