import sys, time
sys.path.insert(0, '/verif')
import z3
from pyvc import core, interp as ip, odlmodel as om, carr, vc, npmodel as npm
from pyvc.core import S
I = om.new_interp()
f = I.get_func('odl.discr.diff_ops:finite_diff')
t0=time.time()
for method in ['forward','backward','central']:
  for pad in ['constant','periodic','symmetric','order0','order1','order2','order1_adjoint','order2_adjoint']:
    def path(st):
        st.closure_arrays = True
        n = S(z3.Int('n')); st.assume(n >= 3)
        dx = S(z3.Real('dx')); st.assume(dx > 0)
        farr = carr.fresh_array('f', (n,), npm.DT('float64'))
        out = carr.fresh_array('stale', (n,), npm.DT('float64'))
        fr = ip.Frame(st)
        try:
            r = I.call(f, [farr], {'axis': 0, 'dx': dx, 'method': method, 'out': out, 'pad_mode': pad, 'pad_const': S(z3.Real('c'))}, fr)
        except ip.PyRaise as e:
            return ('raise', e.exc)
        k = S(z3.Int('k')); st.assume(k >= 0); st.assume(k < n)
        return ('ok', (r, k, n, dx))
    np_ = 0
    for st, (s_, r) in ip.explore(path):
        np_ += 1
        if s_ == 'raise': print(method, pad, 'RAISE', r.cls.name, r.fields.get('args'), [str(p) for p in st.pc]); continue
        out, k, n, dx = r
        val = out.at((k,))
        if np_ == 1 and pad in ('order2_adjoint',) and method=='central': print(z3.simplify(val.t))
    print(method, pad, 'paths', np_)
print(time.time()-t0)
