import sys, traceback
sys.path.insert(0, '/verif')
import z3
from pyvc import core, interp as ip, odlmodel as om, harness, vc
from pyvc.core import S, VVar
from contracts import flib, oplib
from contracts.props import C08
I = om.new_interp()
def path(st):
    flib.install(st, 'gram'); fr = ip.Frame(st)
    b = C08.build(I, st, fr, 'right_scalar')
    hc = I._getattr(b['h'], 'convex_conj', fr)
    hcc = I._getattr(hc, 'convex_conj', fr)
    x = VVar('x')
    a = oplib.sem(I, fr, hcc, x); bb = oplib.sem(I, fr, b['h'], x)
    return ('ok', (hcc, a, bb))
for st, (s_, (hcc, a, bb)) in ip.explore(path):
    if st._full().check() == z3.unsat: continue
    print('hcc', hcc.cls.name, st.pc[4:], st.decisions)
    print(a, bb)
    for k,v in st.lower.atom_args.items(): print(k, v)
    print(core.side_conditions())
    aa = st.lower.atom_args[('f', None)]
    import time
    t=time.time(); print(st.lower._all_equal(aa[0][0], aa[1][0]), time.time()-t)
    goal = core.sc_eq(aa[0][0][0], aa[1][0][0]).t
    print(goal)
    v = vc.prove(list(st.pc), core.side_conditions(), goal, quick=True); print(v)
    side2 = vc.strengthen_side(list(st.pc), core.side_conditions()); print(side2)
    try:
        print(vc.poly_identity(list(st.pc), side2, z3.simplify(goal)))
    except Exception as e:
        traceback.print_exc()
    g2 = z3.simplify(z3.And(goal)); print('simplified', g2)
    print(vc.prove(list(st.pc), core.side_conditions(), g2, quick=True))
    print(vc.prove(list(st.lower.pc), core.side_conditions(), g2, quick=True), len(st.lower.pc), len(st.pc), st.lower.pc is st.pc)
