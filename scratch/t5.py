import sys
sys.path.insert(0, '/verif')
from pyvc import core, interp as ip, odlmodel as om
from contracts import lib, oplib, tlib, makers
from contracts.props import C05
from pyvc.core import VVar
I = om.new_interp()
st = ip.State(); core.reset_symbols()
C05.setup(st); fr = ip.Frame(st)
inst, domb, ranb = C05.build(I, st, fr, 'OperatorSum', 'real', 1, 1, 0)
adj = I._getattr(inst, 'adjoint', fr)
x, y = VVar('x'), VVar('y')
print('sem inst', oplib.sem(I, fr, inst, x))
print('sem adj', oplib.sem(I, fr, adj, y))
lhs = oplib.inner(I, fr, ranb.space, oplib.sem(I, fr, inst, x), y)
rhs = oplib.inner(I, fr, domb.space, x, oplib.sem(I, fr, adj, y))
print(lhs); print(rhs)
print(st.lower.atoms.keys())
