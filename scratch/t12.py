import sys, time
sys.path.insert(0, '/verif')
import z3
from pyvc import core, interp as ip, odlmodel as om, carr, vc, npmodel as npm, harness
from pyvc.core import S, s_and
from contracts.props import C16
I = om.new_interp()
mode='order1'; kinds=('grow','grow')
def path(st):
    C16.setup(st)
    ns = [S(z3.Int('n0')), S(z3.Int('n1'))]; ms = [S(z3.Int('m0')), S(z3.Int('m1'))]; offs = [S(z3.Int('off0')), S(z3.Int('off1'))]
    c = S(z3.Real('c'))
    for n, m, off, kind in zip(ns, ms, offs, kinds):
        st.assume(n >= 1); st.assume(off >= 0); st.assume(m > n); st.assume(off <= m - n); C16.admissible(st, mode, n, off, m - n - off)
    arr = carr.fresh_array('a', tuple(ns), npm.DT('float64')); out = carr.fresh_array('stale', tuple(ms), npm.DT('float64'))
    C16.call_resize(I, st, arr, tuple(ms), offs, mode, c, 'forward', out=out)
    ks = [S(z3.Int('k0')), S(z3.Int('k1'))]
    for k, m in zip(ks, ms): st.assume(k >= 0); st.assume(k < m)
    return ('ok', (out, arr, ks, ns, ms, offs, c))
for st, (_, (out, arr, ks, ns, ms, offs, c)) in ip.explore(path):
    def along0(p1):
        a0 = lambda p0: arr.at((p0, p1))
        return C16.ext(mode, a0, ns[0], c)(ks[0] - offs[0])
    want = C16.ext(mode, along0, ns[1], c)(ks[1] - offs[1])
    reg = s_and(ks[0] >= offs[0] + ns[0], ks[1] >= offs[1] + ns[1])
    goal = core.sc_eq(out.at(tuple(ks)), want).t
    pc = list(st.pc) + [reg.t]
    t=time.time()
    v = None
    if st.decisions != [True, True, False, False]: continue
    g1, subs = vc.implied_equalities(pc, goal); print('subs', subs)
    g2 = vc.elim_ite(pc, [], g1)
    print('elim', time.time()-t, len(str(g2)))
    print(str(g2)[:3000])
    try:
        print('poly', vc.poly_identity(pc, [], g2))
    except Exception as e: print('ERR', e)

